"""C17 — HSTRP / RRS handler acknowledges each peer message exactly once, whatever the history.

Real code: HSTRPDatagramProtocol.datagram_received / hstrp_send_ack / hstrp_send_heartbeat / hstrp_set_connected / hstrp_increment_sn,
RRSDatagramProtocol.datagram_received / rrs_confirm, HSTRP.from_bytes / as_bytes, HSTRPPacketType, HSTRPOptions, HDAP dispatch, RRS / LP / RCP.
Environment: recording fake transport (sendto appends to a list); logging off.
"""
from vf.api import Case, T, AND, OR, NOT, IMPLIES, IFF, EQ
from okdmr.dmrlib.protocols.hytera.rrs_datagram_protocol import RRSDatagramProtocol
from okdmr.dmrlib.hytera.pdu.hstrp import HSTRP, HSTRPPacketType, HSTRPOptions, HSTRPOptionType
from okdmr.dmrlib.hytera.pdu.radio_ip import RadioIP
from okdmr.dmrlib.hytera.pdu.radio_registration_service import RadioRegistrationService, RRSTypes, RRSResult, RRSRadioState
from okdmr.dmrlib.hytera.pdu.location_protocol import LocationProtocol, LocationProtocolSpecificService
from okdmr.dmrlib.hytera.pdu.radio_control_protocol import RadioControlProtocol, RCPOpcode, RCPResult

EXPLANATION = ("C17: one handler step from an arbitrary state (connected flag, 16-bit sequence counter, registry over a pool of 3 radios) on a datagram whose six type bits, "
               "sequence number, option data and payload fields are symbolic, or on fully symbolic raw octets; plus two handlers wired back to back (ping-pong) and short histories.")
BOUNDS = {"quick": "one step: structured datagrams (6 symbolic type bits, symbolic sn, 0..1 options, payload in {none, RRS request / going offline / answer for a pool radio, LP request, RCP call reply}); "
                   "raw symbolic datagrams of 0..10 octets; ping-pong depth 4; histories depth 2",
          "thorough": "raw datagrams up to 12 octets, truncations of structured datagrams at every length, histories depth 3"}
OUTSIDE = "timers (periodic_maintenance), real sockets, histories beyond the stated depth (covered by the one-step relation from an arbitrary state)"
ASSUMPTIONS = ["message classes are read off the type bits: a datagram with the ack bit is an acknowledgement (whatever else is set); otherwise connect > heartbeat > close > reject > data, the handler's own order",
               "the transport is a recording fake; is_closing() is False"]

PEER = ("10.0.0.9", 30001)
RADIOS = [RadioIP(radio_id=1001), RadioIP(radio_id=2002), RadioIP(radio_id=1001, subnet=11)]


class FakeTransport:
    def __init__(self):
        self.out = []

    def sendto(self, data, addr=None):
        self.out.append((data, addr))

    def is_closing(self):
        return False

    def close(self):
        pass


def make_handler(hx, tag="", with_registry=True):
    p = RRSDatagramProtocol(port=30001)
    p.transport = FakeTransport()
    p.hstrp_connected = hx.flag("connected" + tag)
    p.sn = hx.int(16, "handler_sn" + tag)
    for i, r in enumerate(RADIOS[:2] if with_registry else []):
        stt = hx.pick("reg%d%s" % (i, tag), [None, RRSRadioState.Online, RRSRadioState.Offline])
        if stt is not None:
            p.registry[r.as_ip()] = stt
    return p


def make_payload(hx, kind):
    if kind == "none":
        return None, None
    if kind.startswith("rrs-"):
        ri = hx.pick("radio", [0, 1, 2])
        op = {"rrs-request": RRSTypes.RadioRegistrationRequest, "rrs-offline": RRSTypes.RadioGoingOffline, "rrs-answer": RRSTypes.RadioRegistrationAnswer}[kind]
        return RadioRegistrationService(opcode=op, radio_ip=RADIOS[ri], is_reliable=hx.flag("reliable")), ri
    if kind == "lp-request":
        return LocationProtocol(opcode=LocationProtocolSpecificService.StandardRequest, request_id=hx.int(32, "rid"), radio_ip=RADIOS[0]), None
    if kind == "rcp-callreply":
        return RadioControlProtocol(opcode=RCPOpcode.CallReply, result=RCPResult.Success), None
    raise KeyError(kind)


def parse_out(hx, data):
    st, q = hx.guard(HSTRP.from_bytes, data)
    return q if st == "ok" else None


def is_registration_answer(hx, d, radio_bytes=None):
    """the handler's registration answer sets the option bit without an option list, which HSTRP.from_bytes cannot tell from an option
    list; it is therefore recognised on the wire: header '2B', no ack / heartbeat / reject / connect / close bit, an RRS answer right after
    the 6-octet header.  Returns (condition, sequence number)"""
    from okdmr.dmrlib.hytera.pdu.hdap import HDAP
    if len(d) < 7:
        return 0, 0
    st, pl = hx.guard(HDAP.from_bytes, d[6:])
    ok = AND(d[0:2] == b"2B", (d[3] & 0x1F) == 0, st == "ok" and isinstance(pl, RadioRegistrationService) and pl.opcode is RRSTypes.RadioRegistrationAnswer
             and pl.result is RRSResult.Success and (radio_bytes is None or pl.radio_ip.as_bytes() == radio_bytes))
    return ok, d[4] * 256 + d[5]


def check_step(hx, p, data, before_conn, before_reg, before_sn, info):
    """feeds one datagram and proves the per-step clauses.  info: None for raw datagrams, else dict(bits=..., sn=..., payload kind, radio index)"""
    st, res = hx.guard(p.datagram_received, data, PEER)
    hx.prove(st == "ok", "handling never raises (%s: %s)" % (type(res).__name__ if st == "exc" else "", res if st == "exc" else ""))
    out = p.transport.out
    for d, a in out:
        hx.prove(a == PEER, "every answer goes to the sender of the datagram")
    if st != "ok":
        return
    pdu = parse_out(hx, data)
    if pdu is None:
        hx.prove(len(out) == 0, "a datagram that is not HSTRP is not answered")
        hx.prove(AND(p.hstrp_connected == before_conn, p.registry == before_reg), "a datagram that is not HSTRP changes no state")
        hx.cover("not-hstrp")
        return
    t = pdu.pkt_type
    sn = pdu.sn
    is_connect, is_heartbeat, is_close, is_reject = hx.choose(t.is_connect), hx.choose(t.is_heartbeat), hx.choose(t.is_close), hx.choose(t.is_reject)
    if hx.choose(t.is_ack):
        # an acknowledgement may carry a service payload (the RRS layer then answers a registration request), but it is never
        # itself acknowledged, echoed or rejected
        for d, a in out:
            hx.prove(is_registration_answer(hx, d)[0], "an acknowledgement (ack bit set, whatever else is set) is never acknowledged or echoed")
        hx.prove(len(out) <= 1, "an acknowledgement triggers at most the answer to a registration request it carries")
        hx.cover("ack")
        return
    kinds_set = int(is_connect) + int(is_heartbeat) + int(is_close) + int(is_reject)
    if kinds_set > 1 or (kinds_set == 1 and pdu.payload is not None):
        # not a well-formed message type (several purposes at once, or a control message carrying an application payload):
        # only the generic clauses above (no exception, answers go to the sender) are required
        hx.cover("malformed-type")
        return
    if is_connect:
        cls = "connect"
    elif is_heartbeat:
        cls = "heartbeat"
    elif is_close:
        cls = "close"
    elif is_reject:
        cls = "reject"
    else:
        cls = "data"
    hx.cover(cls)
    rrs = pdu.payload if isinstance(pdu.payload, RadioRegistrationService) else None
    expect_answer = cls == "data" and rrs is not None and rrs.opcode is RRSTypes.RadioRegistrationRequest
    if cls in ("connect", "close", "data"):
        acks = [parse_out(hx, d) for d, a in out]
        n_ack = 0
        for q in acks:
            if q is not None and q.pkt_type.is_ack:
                n_ack += 1
                hx.prove(q.sn == sn, "%s: the acknowledgement carries the sequence number of the message" % cls)
                hx.prove(q.payload is None, "%s: the acknowledgement carries no payload" % cls)
        hx.prove(n_ack == 1, "%s: answered by exactly one acknowledgement (got %d)" % (cls, n_ack))
        hx.prove(len(out) == (2 if expect_answer else 1), "%s: exactly %d datagram(s) sent (got %d)" % (cls, 2 if expect_answer else 1, len(out)))
    elif cls == "heartbeat":
        hx.prove(len(out) == (1 if before_conn else 0), "heartbeat: echoed iff connected")
        for d, a in out:
            q = parse_out(hx, d)
            hx.prove(q is not None and q.pkt_type.is_heartbeat and not q.pkt_type.is_ack, "heartbeat: the echo is a heartbeat")
    else:
        hx.prove(len(out) <= 1, "reject: at most one datagram")
    if cls == "connect":
        hx.prove(p.hstrp_connected, "connect: connected flag set")
    elif cls == "close":
        hx.prove(not p.hstrp_connected, "close: connected flag cleared")
    else:
        hx.prove(p.hstrp_connected == before_conn, "%s: connected flag unchanged" % cls)
    # registry and registration answer
    want = dict(before_reg)
    if cls == "data" and rrs is not None:
        if rrs.opcode is RRSTypes.RadioRegistrationRequest:
            want[rrs.radio_ip.as_ip()] = RRSRadioState.Online
        elif rrs.opcode is RRSTypes.RadioGoingOffline:
            want[rrs.radio_ip.as_ip()] = RRSRadioState.Offline
    hx.prove(p.registry == want, "%s: registry holds, per radio, the state implied by its last registration / going-offline message" % cls)
    if expect_answer:
        ans = [d for d, a in out if not hx.choose((d[3] & 1) == 1)]
        hx.prove(len(ans) == 1, "registration request: exactly one datagram besides the acknowledgement")
        if len(ans) == 1:
            okay, asn = is_registration_answer(hx, ans[0], rrs.radio_ip.as_bytes())
            hx.prove(okay, "registration request: the answer is a success answer for the requesting radio")
            hx.prove(AND(asn == (before_sn + 1) % 0xFFFF, asn < 65536, p.sn == asn), "registration request: the answer's sequence number is the incremented counter and fits 16 bits")
    else:
        hx.prove(p.sn == before_sn, "%s: sequence counter unchanged" % cls)


def build_datagram(hx, kind, nopts, tag=""):
    bits = [hx.bit("t_%s%s" % (n, tag)) for n in ("options", "reject", "close", "connect", "heartbeat", "ack")]
    sn = hx.int(16, "sn" + tag)
    payload, ri = make_payload(hx, kind)
    opts = None
    if nopts:
        opts = HSTRPOptions()
        for i in range(nopts):
            opts.add_option(HSTRPOptionType.DeviceID, hx.bytes(4, "opt%d%s" % (i, tag)))
    pt = HSTRPPacketType(have_options=bits[0], is_reject=bits[1], is_close=bits[2], is_connect=bits[3], is_heartbeat=bits[4], is_ack=bits[5])
    if nopts:
        hx.assume(bits[0])                       # an option list is announced by the option bit
    return HSTRP(pkt_type=pt, sn=sn, options=opts, payload=payload).as_bytes()


def fresh_handler_is_initial(hx, what):
    """the state is per handler: a handler created after any history of OTHER handlers starts disconnected with an empty registry"""
    f = RRSDatagramProtocol(port=30002)
    hx.prove(AND(len(f.registry) == 0, not f.hstrp_connected), "%s: a handler created afterwards starts disconnected with an empty registry (handlers share no state)" % what)


def h_step_structured(hx, kind, nopts):
    p = make_handler(hx)
    data = build_datagram(hx, kind, nopts)
    check_step(hx, p, data, p.hstrp_connected, dict(p.registry), p.sn, dict(kind=kind))
    fresh_handler_is_initial(hx, "after one step of another handler")


def h_step_raw(hx, n):
    p = make_handler(hx)
    data = hx.bytes(n, "d")
    check_step(hx, p, data, p.hstrp_connected, dict(p.registry), p.sn, None)
    hx.cover("raw")


def h_truncated(hx, kind, nopts, cut):
    p = make_handler(hx)
    data = build_datagram(hx, kind, nopts)
    if cut >= len(data):
        hx.cover("raw")
        return
    check_step(hx, p, data[:cut], p.hstrp_connected, dict(p.registry), p.sn, None)
    hx.cover("raw")


def h_pingpong(hx, kind):
    """two handlers back to back: whatever A answers to the first datagram is delivered to B, B's answers to A, ...; the exchange must
    die out unless it is a heartbeat echo between two connected peers"""
    a, b = make_handler(hx, "A", False), make_handler(hx, "B", False)
    first = build_datagram(hx, kind, 0)
    pending = [(first, a)]
    for depth in range(4):
        nxt = []
        for data, target in pending:
            other = b if target is a else a
            mark = len(target.transport.out)
            st, res = hx.guard(target.datagram_received, data, PEER)
            hx.prove(st == "ok", "ping-pong: handling never raises")
            for d, _ in target.transport.out[mark:]:
                nxt.append((d, other))
        pending = nxt
        if not pending:
            break
    for d, _ in pending:
        q = parse_out(hx, d)
        hx.prove(q is not None and q.pkt_type.is_heartbeat and not q.pkt_type.is_ack and q.payload is None,
                 "two handlers do not ping-pong: whatever is still in flight after 4 rounds is a plain heartbeat echo between connected peers")
    hx.cover("pingpong")


MESSAGES = ["connect", "close", "heartbeat", "ack", "data", "data-rrs-request", "data-rrs-offline", "garbage"]


def h_history(hx, depth):
    """histories of well-formed single-purpose messages from the initial state; next to the per-step clauses a model of the whole
    history is kept: connected == 'last connect/close seen was a connect', registry == state implied by each radio's last message"""
    p = RRSDatagramProtocol(port=30001)
    p.transport = FakeTransport()
    want_conn = False
    want_reg = {}
    for n in range(depth):
        m = hx.pick("msg%d" % n, MESSAGES)
        sn = hx.int(16, "sn_%d" % n)
        if m == "garbage":
            data = hx.bytes(5, "g_%d" % n)
        else:
            payload = None
            if m.startswith("data-rrs"):
                ri = hx.pick("radio_%d" % n, [0, 1, 2])       # radio 2 has the radio id of radio 0 in another subnet
                op = RRSTypes.RadioRegistrationRequest if m.endswith("request") else RRSTypes.RadioGoingOffline
                payload = RadioRegistrationService(opcode=op, radio_ip=RADIOS[ri])
                want_reg[RADIOS[ri].as_ip()] = RRSRadioState.Online if m.endswith("request") else RRSRadioState.Offline
            pt = HSTRPPacketType(is_connect=m == "connect", is_close=m == "close", is_heartbeat=m == "heartbeat", is_ack=m == "ack")
            data = HSTRP(pkt_type=pt, sn=sn, payload=payload).as_bytes()
            if m == "connect":
                want_conn = True
            elif m == "close":
                want_conn = False
        p.transport.out = []
        check_step(hx, p, data, p.hstrp_connected, dict(p.registry), p.sn, None)
        hx.prove(p.hstrp_connected == want_conn, "history: connected flag equals 'the last connect/close seen was a connect' after step %d (%s)" % (n, m))
        hx.prove(p.registry == want_reg, "history: registry equals the state implied by each radio's last registration / going-offline message after step %d" % n)
    hx.cover("history")


KINDS = ["none", "rrs-request", "rrs-offline", "rrs-answer", "lp-request", "rcp-callreply"]


def cases(tier, seed):
    out = []
    for k in KINDS:
        for n in (0, 1):
            out.append(Case("step-%s-opt%d" % (k, n), "h_step_structured", dict(kind=k, nopts=n), budget_s=600, opts=dict(max_paths=6000, max_violations=8),
                            bounds="6 symbolic type bits, symbolic sn, %d option(s) with symbolic data, payload %s; handler state symbolic" % (n, k)))
    for n in range(0, (11 if tier == "quick" else 13)):
        out.append(Case("step-raw-%d" % n, "h_step_raw", dict(n=n), covers=["raw"], budget_s=900, opts=dict(max_paths=20000, max_violations=8), bounds="%d fully symbolic octets; handler state symbolic" % n))
    for k in ("none", "rrs-request", "rcp-callreply"):
        out.append(Case("pingpong-" + k, "h_pingpong", dict(kind=k), covers=["pingpong"], budget_s=900, opts=dict(max_paths=20000, max_violations=8),
                        bounds="two handlers with symbolic states, first datagram with 6 symbolic type bits and payload %s, 4 rounds" % k))
    out.append(Case("history", "h_history", dict(depth=3 if tier == "quick" else 4), covers=["history"], budget_s=1200, opts=dict(max_paths=60000, max_violations=8),
                    bounds="all sequences of the stated depth over 8 message classes (connect, close, heartbeat, ack, data, registration request, going offline, garbage) with symbolic sequence numbers, from the initial state"))
    if tier == "thorough":
        for k, n in (("rrs-request", 1), ("none", 1)):
            for cut in range(0, 30):
                out.append(Case("trunc-%s-%d" % (k, cut), "h_truncated", dict(kind=k, nopts=n, cut=cut), covers=["raw"], budget_s=600, opts=dict(max_paths=6000),
                                bounds="structured datagram (%s, %d option) truncated to %d octets" % (k, n, cut)))
    return out
