"""C09 — variable-length BPTCs (embedded LC 128/72, CACH short LC 68/28, single burst 32/11) are consistent.

Real code: VBPTC12873 / VBPTC6828 / VBPTC3211 encode, deinterleave_*, fill_encoding_table, set_parity; FiveBitChecksum; CRC8;
Hamming16114 / Hamming17123.  All message bits symbolic: one run covers all 2^72 / 2^28 / 2^11 messages.
"""
from bitarray import bitarray
from bitarray.util import ba2int, int2ba
from sxl.bits import bxor
from vf.api import Case, T, AND, OR, NOT, IMPLIES, IFF, EQ
from okdmr.dmrlib.etsi.fec.vbptc_128_72 import VBPTC12873
from okdmr.dmrlib.etsi.fec.vbptc_68_28 import VBPTC6828
from okdmr.dmrlib.etsi.fec.vbptc_32_11 import VBPTC3211
from okdmr.dmrlib.etsi.fec.five_bit_checksum import FiveBitChecksum
from okdmr.dmrlib.etsi.fec.hamming_16_11_4 import Hamming16114
from okdmr.dmrlib.etsi.fec.hamming_17_12_3 import Hamming17123
from okdmr.dmrlib.etsi.crc.crc8 import CRC8

EXPLANATION = "C09: message bits symbolic (all messages per run); row codes, column parities, checksum placement and the three encode input forms are proved per code."
BOUNDS = {"quick": "complete: all 2^72, 2^28 and 2^11 messages (both parities for 32/11)", "thorough": "same as quick"}
OUTSIDE = "error correction of the variable-length BPTCs (the library implements none)"
ASSUMPTIONS = ["bit order of the checksum as returned by the library's extractors follows the convention its own tests document: CS5 most-significant bit first; "
               "CRC-8 of the short LC least-significant bit first (deinterleave_crc8_bits byte-reverses)",
               "5-bit checksum reference: (sum of the 9 octets) mod 31 (ETSI B.3.11)"]


def xor_all(xs):
    r = 0
    for x in xs:
        r = bxor(r, x)
    return r


def sequence_checks(hx, cls, m, enc, k, forms, tag):
    """encode is a pure function: damaging a returned codeword, or encoding ANY other input (of any accepted length) in between,
    does not change encode(m)"""
    keep = enc.copy()
    enc.invert(0)
    enc.invert(len(enc) - 1)
    hx.prove(cls.encode(m) == keep, "%s: encode(m) is unaffected by in-place changes to a previously returned codeword" % tag)
    for n in forms:
        other = hx.ba(n, "other%d" % n)
        st, r = hx.guard(cls.encode, other)
        again = cls.encode(m)
        hx.prove(again == keep, "%s: encode(m) is unaffected by an encode of an unrelated %d-bit input in between" % (tag, n))
        if st == "ok" and n == k:
            hx.prove(cls.deinterleave_data_bits(r, False) == other if tag != "32/11" else True, "%s: the unrelated %d-bit message also round-trips right after encode(m)" % (tag, n))
    # the SAME buffer object, modified in place after it was encoded, is encoded again: the result depends on its current value only
    delta = hx.ba(k, "delta")
    m ^= delta
    enc2 = cls.encode(m)
    hx.prove(enc2 == cls.encode(m.copy()), "%s: encoding a buffer that was modified in place since an earlier encode gives the encoding of its current value" % tag)
    hx.prove(cls.deinterleave_data_bits(enc2, False) == m, "%s: ... and the extractor returns the current value" % tag)
    if tag == "68/28":
        hx.prove(EQ(cls.deinterleave_crc8_bits(enc2).tolist(), int2ba(CRC8.calculate(m.copy()), length=8, endian="little").tolist()),
                 "68/28: CRC-8 read back after re-encoding the modified buffer == CRC8.calculate(current message)")
    if tag == "128/72":
        hx.prove(ba2int(cls.deinterleave_cs5_bits(enc2)) == FiveBitChecksum.calculate(m.tobytes()),
                 "128/72: checksum read back after re-encoding the modified buffer == FiveBitChecksum.calculate(current message)")


def h_128_72(hx):
    m = hx.ba(72, "m")
    snap = m.copy()
    enc = VBPTC12873.encode(m)
    hx.prove(m == snap, "128/72: encode leaves its input unchanged")
    hx.prove(len(enc) == 128, "128/72: 128 bits out")
    hx.prove(VBPTC12873.deinterleave_data_bits(enc, include_cs5=False) == m, "128/72: extractor returns the message")
    d77 = VBPTC12873.deinterleave_data_bits(enc, include_cs5=True)
    hx.prove(AND(len(d77) == 77, d77[:72] == m), "128/72: 77-bit extraction starts with the message")
    allb = VBPTC12873.deinterleave_all_bits(enc)
    table = VBPTC12873.fill_encoding_table(VBPTC12873.make_encoding_table(), allb)
    for r in range(7):
        hx.prove(Hamming16114.check(bitarray(table[r].tolist())), "128/72: row %d is a Hamming(16,11,4) codeword" % r)
    for c in range(16):
        hx.prove(NOT(xor_all(table[:, c].tolist())), "128/72: column %d has even parity" % c)
    # checksum read back by the library's own extractor == checksum computed over the message
    cs_calc = FiveBitChecksum.calculate(m.tobytes())
    octs = list(m.tobytes())
    ref = 0
    for o in octs:
        ref = ref + o
    ref = ref % 31
    hx.prove(cs_calc == ref, "FiveBitChecksum.calculate == (sum of octets) mod 31")
    cs_read = ba2int(VBPTC12873.deinterleave_cs5_bits(enc))
    hx.prove(cs_read == cs_calc, "128/72: checksum read back by deinterleave_cs5_bits == FiveBitChecksum.calculate(message)")
    hx.prove(ba2int(d77[72:]) == cs_calc, "128/72: checksum part of the 77-bit extraction == computed checksum")
    hx.prove(FiveBitChecksum.verify(m.tobytes(), cs_calc) if not hx.symbolic else True, "FiveBitChecksum.verify accepts the computed value")
    # three input forms give the same bits
    hx.prove(VBPTC12873.encode(d77) == enc, "128/72: encode(message+checksum) == encode(message)")
    hx.prove(VBPTC12873.encode(allb) == enc, "128/72: encode(de-interleaved matrix) == encode(message)")
    sequence_checks(hx, VBPTC12873, m, enc, 72, (72, 77, 128), "128/72")
    hx.cover("128")


def h_68_28(hx):
    m = hx.ba(28, "m")
    enc = VBPTC6828.encode(m)
    hx.prove(len(enc) == 68, "68/28: 68 bits out")
    hx.prove(VBPTC6828.deinterleave_data_bits(enc, include_crc8=False) == m, "68/28: extractor returns the message")
    d36 = VBPTC6828.deinterleave_data_bits(enc, include_crc8=True)
    hx.prove(AND(len(d36) == 36, d36[:28] == m), "68/28: 36-bit extraction starts with the message")
    allb = VBPTC6828.deinterleave_all_bits(enc)
    table = VBPTC6828.fill_encoding_table(VBPTC6828.make_encoding_table(), allb)
    for r in range(3):
        hx.prove(Hamming17123.check(bitarray(table[r].tolist())), "68/28: row %d is a Hamming(17,12,3) codeword" % r)
    for c in range(17):
        hx.prove(NOT(xor_all(table[:, c].tolist())), "68/28: column %d has even parity" % c)
    crc = CRC8.calculate(m)
    got = VBPTC6828.deinterleave_crc8_bits(enc)
    want = int2ba(crc, length=8, endian="little")
    hx.prove(EQ(got.tolist(), want.tolist()), "68/28: CRC-8 read back by deinterleave_crc8_bits == CRC8.calculate(message) (LSB-first convention)")
    hx.prove(EQ(d36[28:].tolist(), want.tolist()), "68/28: CRC part of the 36-bit extraction == computed CRC-8")
    hx.prove(VBPTC6828.encode(d36) == enc, "68/28: encode(message+crc) == encode(message)")
    hx.prove(VBPTC6828.encode(allb) == enc, "68/28: encode(de-interleaved matrix) == encode(message)")
    sequence_checks(hx, VBPTC6828, m, enc, 28, (28, 36, 68), "68/28")
    hx.cover("68")


def h_32_11(hx, even):
    m = hx.ba(11, "m")
    enc = VBPTC3211.encode(m, even)
    hx.prove(len(enc) == 32, "32/11: 32 bits out")
    hx.prove(VBPTC3211.deinterleave_data_bits(enc) == m, "32/11: extractor returns the message")
    allb = VBPTC3211.deinterleave_all_bits(enc)
    table = VBPTC3211.fill_encoding_table(VBPTC3211.make_encoding_table(), allb)
    hx.prove(Hamming16114.check(bitarray(table[0].tolist())), "32/11: row 0 is a Hamming(16,11,4) codeword")
    for c in range(16):
        par = xor_all(table[:, c].tolist())
        hx.prove(NOT(par) if even else par, "32/11: column %d has %s parity" % (c, "even" if even else "odd"))
    hx.prove(VBPTC3211.encode(allb, even) == enc, "32/11: encode(de-interleaved matrix) == encode(message)")
    hx.cover("32")


def cases(tier, seed):
    return [Case("vbptc-128-72", "h_128_72", {}, covers=["128"], budget_s=300, bounds="72 symbolic message bits"),
            Case("vbptc-68-28", "h_68_28", {}, covers=["68"], budget_s=120, bounds="28 symbolic message bits"),
            Case("vbptc-32-11-even", "h_32_11", dict(even=True), covers=["32"], budget_s=60, bounds="11 symbolic message bits, even parity"),
            Case("vbptc-32-11-odd", "h_32_11", dict(even=False), covers=["32"], budget_s=60, bounds="11 symbolic message bits, odd parity (reverse channel)")]
