"""C08 — transmission tracking emits well-formed start / end events for any burst sequence.

Real code: Terminal.process_incoming_burst, Timeslot.process_burst / get_rx_sequence / *_transmission_ended, Transmission.process_packet /
fix_voice_burst_type / process_voice_header / process_data_header / process_csbk / process_data / new_transmission / ensure_transmission /
end_voice_transmission / end_data_transmission / end_transmissions / is_last_block, WithObservers.*; Burst parsing underneath.
Bursts are produced by the library's own serialiser from fields (symbolic where the tracker looks at them); the burst class at every
step is a declared split; a monitor over the observer call-back log proves the clauses.
"""
from bitarray import bitarray
from vf.api import Case, T, AND, OR, NOT, IMPLIES, IFF, EQ
from okdmr.dmrlib.etsi.layer2.burst import Burst
from okdmr.dmrlib.etsi.layer2.elements.burst_types import BurstTypes
from okdmr.dmrlib.etsi.layer2.elements.data_types import DataTypes
from okdmr.dmrlib.etsi.layer2.elements.sync_patterns import SyncPatterns
from okdmr.dmrlib.etsi.layer2.elements.flcos import FLCOs
from okdmr.dmrlib.etsi.layer2.elements.feature_set_ids import FeatureSetIDs
from okdmr.dmrlib.etsi.layer2.elements.csbk_opcodes import CsbkOpcodes
from okdmr.dmrlib.etsi.layer2.elements.voice_bursts import VoiceBursts
from okdmr.dmrlib.etsi.layer2.pdu.slot_type import SlotType
from okdmr.dmrlib.etsi.layer2.pdu.embedded_signalling import EmbeddedSignalling
from okdmr.dmrlib.etsi.layer2.pdu.full_link_control import FullLinkControl
from okdmr.dmrlib.etsi.layer2.pdu.data_header import DataHeader
from okdmr.dmrlib.etsi.layer2.pdu.csbk import CSBK
from okdmr.dmrlib.etsi.layer2.pdu.rate12_data import Rate12Data, Rate12DataTypes
from okdmr.dmrlib.etsi.layer2.pdu.rate1_data import Rate1Data, Rate1DataTypes
from okdmr.dmrlib.etsi.layer2.elements.data_packet_formats import DataPacketFormats
from okdmr.dmrlib.etsi.layer2.elements.sap_identifier import SAPIdentifier
from okdmr.dmrlib.etsi.layer2.elements.full_message_flag import FullMessageFlag
from okdmr.dmrlib.etsi.layer2.elements.resynchronize_flag import ResynchronizeFlag
from okdmr.dmrlib.etsi.layer3.elements.service_options import ServiceOptions
from okdmr.dmrlib.transmission.terminal import Terminal
from okdmr.dmrlib.transmission.transmission_observer_interface import TransmissionObserverInterface
from okdmr.dmrlib.transmission.transmission_types import TransmissionTypes

EXPLANATION = ("C08: every history of the stated depth over the burst alphabet (declared split per step), with the fields the tracker reads (blocks-to-follow, preamble count, "
               "response flag, SAP, payload octets of data blocks, group address) symbolic; vocoder bits are concretised (no clause depends on them).")
BOUNDS = {"quick": "all histories of depth 2 over 10 burst classes and of depth 3 over the 6-class core alphabet (voice header, terminator, voice EMB, unconfirmed data header, preamble, rate 1/2 block), timeslot 1; classes: (voice LC header, terminator, voice sync, voice EMB, data header unconfirmed / confirmed with blocks-to-follow in {0,1,2,100} (later steps {1,2}) and SAP in "
                   "{short data, UDP/IP compression}, preamble CSBK with count in {0,1,3,200}, other CSBK, rate 1/2 block with symbolic octets, rate 1 block); depth 2 with a raising observer and with two timeslots",
          "thorough": "as quick plus depth 3 opening with an unconfirmed short-data header"}
OUTSIDE = "depth-3 histories that OPEN with a data header (quick) / with a UDP/IP-compression data header (thorough) - measured > 10 / > 19 min per case; rate 3/4 blocks in histories (cost); histories beyond the stated depth; TransmissionWatcher (pcap entry point)"
ASSUMPTIONS = ["secrets.token_bytes is a stub returning fresh symbolic octets: a 'fresh stream id' is a newly drawn token",
               "per-call summaries of HammingCommon.check_and_correct; vocoder bits all-zero"]

OPTS = dict(merge_calls=["HammingCommon.check_and_correct"], max_paths=40000, max_violations=10, solver_timeout_ms=60000)
LATE = ["voice-header", "terminator", "voice-emb", "data-header-u", "preamble", "rate12"]       # third step of the quick tier
ALPHABET = ["voice-header", "terminator", "voice-sync", "voice-emb", "data-header-u", "data-header-c", "preamble", "csbk", "rate12", "rate1"]


class Rec(TransmissionObserverInterface):
    def __init__(self, raises=False):
        self.ev = []
        self.raises = raises

    def transmission_started(self, transmission_type):
        self.ev.append(("started", transmission_type))
        if self.raises:
            raise RuntimeError("observer failure")

    def data_transmission_ended(self, transmission_header, blocks):
        self.ev.append(("data_ended", transmission_header, list(blocks)))
        if self.raises:
            raise RuntimeError("observer failure")

    def voice_transmission_ended(self, voice_header, blocks):
        self.ev.append(("voice_ended", voice_header, list(blocks)))
        if self.raises:
            raise RuntimeError("observer failure")


def mk(data, dt):
    b = Burst(burst_type=BurstTypes.DataAndControl)
    b.has_emb = False
    b.sync_or_embedded_signalling = SyncPatterns.BsSourcedData
    b.slot_type = SlotType(colour_code=1, data_type=dt)
    b.data = data
    return Burst.from_bits(b.as_bits(), BurstTypes.DataAndControl)


SO = ServiceOptions.from_bits(bitarray("00000000"))


def burst_of(hx, kind, i):
    if kind == "voice-header":
        return mk(FullLinkControl(protect_flag=0, flco=FLCOs.GroupVoiceChannelUser, fid=FeatureSetIDs.StandardizedFID, crc=bitarray("0" * 24), service_options=SO,
                                  group_address=hx.int(24, "g%d" % i), source_address=7), DataTypes.VoiceLCHeader)
    if kind == "voice-header-any":
        # a voice LC header carrying ANY Full LC the library can parse (group / unit-to-unit call, GPS info, talker alias header / blocks ...):
        # the Full LC decoder runs on 96 symbolic bits, every opcode appears as a path
        st, lc = hx.guard(FullLinkControl.from_bits, hx.ba(96, "lc%d" % i))
        if st != "ok":
            hx.assume(False)                      # not a parseable Full LC: not a burst of this class
        return mk(lc, DataTypes.VoiceLCHeader)
    if kind == "terminator":
        return mk(FullLinkControl(protect_flag=0, flco=FLCOs.GroupVoiceChannelUser, fid=FeatureSetIDs.StandardizedFID, crc=bitarray("0" * 24), service_options=SO,
                                  group_address=9, source_address=7), DataTypes.TerminatorWithLC)
    if kind == "voice-sync":
        bits = bitarray("0" * 108) + SyncPatterns.BsSourcedVoice.as_bits() + bitarray("0" * 108)
        return Burst.from_bits(bits, BurstTypes.Vocoder)
    if kind == "voice-emb":
        emb = EmbeddedSignalling(colour_code=1, preemption_and_power_control_indicator=0, link_control_start_stop=0).as_bits()
        bits = bitarray("0" * 108) + emb[:8] + bitarray("0" * 32) + emb[8:] + bitarray("0" * 108)
        return Burst.from_bits(bits, BurstTypes.Vocoder)
    if kind in ("data-header-u", "data-header-c"):
        conf = kind.endswith("c")
        sap = FIRST_SAP[0] if (i == 0 and FIRST_SAP) else hx.pick("sap%d" % i, [SAPIdentifier.ShortData, SAPIdentifier.UDP_IP_compression] if i < 2 else [SAPIdentifier.ShortData])
        return mk(DataHeader(dpf=DataPacketFormats.DataPacketConfirmed if conf else DataPacketFormats.DataPacketUnconfirmed, is_response_requested=conf, sap_identifier=sap,
                             llid_destination=5, llid_source=6, full_message_flag=FullMessageFlag.FirstTryToCompletePacket, blocks_to_follow=FIRST_BTF[0] if (i == 0 and FIRST_BTF) else hx.pick("btf%d" % i, [0, 1, 2, 100] if i == 0 else [1, 2]), pad_octet_count=0,
                             resynchronize_flag=ResynchronizeFlag.DoNotSync), DataTypes.DataHeader)
    if kind == "preamble":
        return mk(CSBK(csbko=CsbkOpcodes.PreambleCSBK, source_address=6, target_address=5, blocks_to_follow=FIRST_BTF[0] if (i == 0 and FIRST_BTF) else hx.pick("pre%d" % i, [0, 1, 3, 200] if i == 0 else [0, 3]), target_address_is_individual=True, last_block=True), DataTypes.CSBK)
    if kind == "csbk":
        return mk(CSBK(csbko=CsbkOpcodes.BSOutboundActivation, bs_address=5, source_address=6), DataTypes.CSBK)
    if kind == "rate12":
        return mk(Rate12Data(data=hx.bytes(12, "pl%d" % i), packet_type=Rate12DataTypes.Unconfirmed), DataTypes.Rate12Data)
    if kind == "rate12-fixed":
        return mk(Rate12Data(data=bytes([0x10 + i] * 12), packet_type=Rate12DataTypes.Unconfirmed), DataTypes.Rate12Data)
    if kind == "rate1":
        return mk(Rate1Data(data=bytes(24), packet_type=Rate1DataTypes.Unconfirmed), DataTypes.Rate1Data)
    raise KeyError(kind)


FIRST_BTF = []          # set per case: blocks-to-follow of the burst that opens the history (h_interleave)
FIRST_SAP = []          # set per case: the SAP of a data header that opens the history (declared split moved to the case level)


def monitor(hx, ev, what):
    """well-formedness of a call-back log"""
    open_kind = None
    for e in ev:
        if e[0] == "started":
            open_kind = e[1]
        elif e[0] == "data_ended":
            hx.prove(open_kind is TransmissionTypes.DataTransmission, "%s: 'data ended' only after a 'started(data)' that has not been ended yet" % what)
            hx.prove(isinstance(e[1], DataHeader), "%s: 'data ended' hands over the data header of that transmission" % what)
            open_kind = None
        elif e[0] == "voice_ended":
            hx.prove(open_kind is TransmissionTypes.VoiceTransmission, "%s: 'voice ended' only after a 'started(voice)' that has not been ended yet" % what)
            hx.prove(isinstance(e[1], FullLinkControl), "%s: 'voice ended' hands over the voice LC header of that transmission" % what)
            open_kind = None


BLOCK_KINDS = ("data-header-u", "data-header-c", "preamble", "csbk", "rate12", "rate12-fixed", "rate1")


def same_pdu(x, y):
    """x: block handed over by the tracker, y: PDU of the burst that was fed.  Data blocks are re-typed by the tracker (confirmed / last block
    according to its own state), so they are compared by their payload octets; headers and CSBKs bit for bit."""
    if isinstance(y, (Rate12Data, Rate1Data)):
        if type(x) is not type(y):
            return 0
        sent = y.as_bits().tobytes()
        n = len(x.data)
        off = 2 if x.is_confirmed() else 0          # confirmed blocks: 7-bit serial number + CRC-9 in front; last blocks: CRC-32 behind the data
        return T(bytes(sent[off:off + n]) == x.data) if 0 < n <= len(sent) - off else 0
    if type(x) is not type(y):
        return 0
    return T(x.as_bits() == y.as_bits())


def blocks_clause(hx, new, since, pdu, what):
    """`since`: PDUs of the block-carrying bursts of this timeslot since its last 'started' (updated in place).  An 'ended' that is followed by a
    'started' inside the same burst was forced by that burst (which belongs to the next transmission); otherwise the burst completes
    the transmission and is its last block."""
    for j, e in enumerate(new):
        if e[0] in ("data_ended", "voice_ended"):
            nm = "'%s'" % e[0].replace("_", " ")
            forced = any(x[0] == "started" for x in new[j + 1:])
            exp = list(since) + ([pdu] if (pdu is not None and not forced) else [])
            got = e[2]
            hx.prove(len(got) == len(exp), "%s: %s hands over as many blocks as were received since that start (%d expected, %d handed over)" % (what, nm, len(exp), len(got)))
            if len(got) == len(exp):
                hx.prove(AND(*[same_pdu(g, x) for g, x in zip(got, exp)]) if exp else True, "%s: %s hands over exactly the blocks received since that start, in order" % (what, nm))
                if e[0] == "data_ended":
                    hx.prove(any(h is e[1] for h in got) or not any(isinstance(x, DataHeader) for x in exp), "%s: the handed-over data header is the one received in that transmission" % what)
            del since[:]
        elif e[0] == "started":
            del since[:]
    if pdu is not None and not (any(e[0] in ("data_ended", "voice_ended") for e in new) and not any(e[0] == "started" for e in new)):
        since.append(pdu)


def h_interleave(hx, opener, btf):
    """two timeslots, interleaved: a block-carrying transmission is opened on timeslot 1, one burst of any core class arrives on timeslot 2,
    then timeslot 1 receives its data blocks - what timeslot 1 hands over must be its own header and blocks"""
    del FIRST_SAP[:]
    del FIRST_BTF[:]
    FIRST_BTF.append(btf)
    rec = Rec()
    term = Terminal(5, observers=[rec])
    since = {1: [], 2: []}
    FIRST_SAP.append(SAPIdentifier.ShortData)
    plan = [(opener, 1), (hx.pick("k1", ["voice-header", "terminator", "preamble", "data-header-u", "rate12-fixed"]), 2), ("rate12-fixed", 1),
            (hx.pick("k3", ["rate12-fixed", "terminator", "preamble", "voice-header"]), hx.pick("ts3", [1, 2])), ("rate12-fixed", 1)]
    kinds = []
    for i, (kind, ts) in enumerate(plan):
        kinds.append("%s@%d" % (kind, ts))
        what = "interleaved history %r" % (kinds,)
        n_ev = len(rec.ev)
        b = burst_of(hx, kind, i)
        st, out = hx.guard(term.process_incoming_burst, b, ts)
        hx.prove(st == "ok", "%s: processing never fails (%s: %s)" % (what, type(out).__name__ if st == "exc" else "", out if st == "exc" else ""))
        if st != "ok":
            return
        blocks_clause(hx, rec.ev[n_ev:], since[ts], b.data if kind in BLOCK_KINDS else None, what)
    del FIRST_BTF[:]
    hx.cover("interleave")


def h_history(hx, first, depth, raising, two_slots, full=True, first_sap=None):
    del FIRST_SAP[:]
    del FIRST_BTF[:]
    if first_sap:
        FIRST_SAP.append(getattr(SAPIdentifier, first_sap))
    rec = Rec()
    bad = Rec(raises=True)
    term = Terminal(5, observers=([bad, rec] if raising else [rec]))
    kinds = []
    seqs = {1: 0, 2: 0}
    since_start = {1: [], 2: []}
    voice_label = {1: None, 2: None}
    for i in range(depth):
        kind = first if i == 0 else hx.pick("k%d" % i, ALPHABET if full else LATE)
        ts = hx.pick("ts%d" % i, [1, 2]) if two_slots else 1
        kinds.append(kind if not two_slots else "%s@%d" % (kind, ts))
        what = "history %r" % (kinds,)
        slot = term.timeslots[ts]
        tr = slot.transmission
        stream_before = tr.stream_no
        n_ev = len(rec.ev)
        b = burst_of(hx, kind, i)
        st, out = hx.guard(term.process_incoming_burst, b, ts)
        hx.prove(st == "ok", "%s: processing never fails (%s: %s)" % (what, type(out).__name__ if st == "exc" else "", out if st == "exc" else ""),
                 known={"C08-udp-header-parse-of-short-user-data": True} if st == "exc" and isinstance(out, AssertionError) and "extended header" in str(out) else None)
        new = rec.ev[n_ev:]
        monitor(hx, rec.ev, what)
        # blocks handed over == the header and the blocks received since that start (on this timeslot)
        if st == "ok":
            blocks_clause(hx, new, since_start[ts], b.data if kind in BLOCK_KINDS else None, what)
        for j, e in enumerate(new):
            if e[0] in ("data_ended", "voice_ended"):
                restarted = any(x[0] == "started" for x in new[j + 1:])       # the same burst may start the next transmission right away
                hx.prove(tr.type is TransmissionTypes.Idle or restarted, "%s: after an 'ended' notification the tracker is idle (or the burst that forced the end has started a new transmission)" % what)
                hx.prove(tr.stream_no is not stream_before, "%s: after an 'ended' notification the stream id is a fresh one" % what)
        # receive sequence numbers count up modulo 256 and restart after an end
        if st == "ok":
            seqs[ts] = (seqs[ts] + 1) & 255
            hx.prove(out.sequence_no == seqs[ts], "%s: receive sequence number counts up modulo 256 and restarts after an end" % what)
            if any(e[0] in ("data_ended", "voice_ended") for e in new):
                seqs[ts] = 0
            # voice labels: A at a voice sync inside a voice transmission, then B..F, cyclically
            if kind == "voice-sync" and tr.type is TransmissionTypes.VoiceTransmission:
                hx.prove(out.voice_burst is VoiceBursts.VoiceBurstA, "%s: a voice-sync burst inside a voice transmission is labelled A" % what)
                voice_label[ts] = VoiceBursts.VoiceBurstA
            elif kind == "voice-emb" and tr.type is TransmissionTypes.VoiceTransmission and voice_label[ts] is not None:
                want = VoiceBursts.VoiceBurstA if voice_label[ts] is VoiceBursts.VoiceBurstF else VoiceBursts(voice_label[ts].value + 1)
                hx.prove(out.voice_burst is want, "%s: voice bursts after a voice-sync burst are labelled cyclically (expected %s)" % (what, want.name))
                voice_label[ts] = want
            elif kind not in ("voice-sync", "voice-emb"):
                voice_label[ts] = None
    if raising:
        hx.prove([e[0] for e in rec.ev] == [e[0] for e in bad.ev], "history %r: an observer that raises never prevents the other observer's notifications" % (kinds,))
    hx.cover("history")


def h_step(hx, prefix, kind):
    """one step from a tracker state that a LONG history reaches: the state after `prefix` with the 8-bit receive sequence counter replaced by
    an arbitrary value (reached by that many further bursts) and, inside a voice transmission, the last voice-burst label replaced by any of
    A..F / unknown (reached by a voice-sync burst followed by 0..5 embedded-signalling bursts)."""
    del FIRST_BTF[:]
    rec = Rec()
    term = Terminal(5, observers=[rec])
    for i, k in enumerate(prefix):
        term.process_incoming_burst(burst_of(hx, k, i + 1), 1)
    slot = term.timeslots[1]
    tr = slot.transmission
    seq = hx.int(8, "seq")
    slot.rx_sequence = seq
    last = None
    if tr.type is TransmissionTypes.VoiceTransmission:
        last = hx.pick("last", list(VoiceBursts))
        tr.last_voice_burst = last
    what = "state after %r with sequence counter s%s, then %s" % (prefix, (" and last voice burst %s" % last.name) if last is not None else "", kind)
    n_ev = len(rec.ev)
    st, out = hx.guard(term.process_incoming_burst, burst_of(hx, kind, len(prefix) + 1), 1)
    hx.prove(st == "ok", "%s: processing never fails (%s: %s)" % (what, type(out).__name__ if st == "exc" else "", out if st == "exc" else ""))
    monitor(hx, rec.ev, what)
    if st != "ok":
        return
    hx.prove(out.sequence_no == ((seq + 1) & 255), "%s: the receive sequence number is (s + 1) mod 256" % what)
    ended = any(e[0] in ("data_ended", "voice_ended") for e in rec.ev[n_ev:])
    if last is not None and tr.type is TransmissionTypes.VoiceTransmission and not ended:
        cyc = [VoiceBursts.VoiceBurstA, VoiceBursts.VoiceBurstB, VoiceBursts.VoiceBurstC, VoiceBursts.VoiceBurstD, VoiceBursts.VoiceBurstE, VoiceBursts.VoiceBurstF]
        if kind == "voice-sync":
            hx.prove(out.voice_burst is VoiceBursts.VoiceBurstA, "%s: a voice-sync burst is labelled A" % what)
        elif kind == "voice-emb" and last in cyc:
            want = cyc[(cyc.index(last) + 1) % 6]
            hx.prove(out.voice_burst is want, "%s: the burst after %s is labelled %s" % (what, last.name, want.name))
            hx.cover("voice-label")
    nxt = term.process_incoming_burst(burst_of(hx, "csbk", 9), 1)
    hx.prove(nxt.sequence_no == (1 if ended else ((seq + 2) & 255)), "%s: the following burst gets %s" % (what, "1 (restart after an end)" if ended else "(s + 2) mod 256"))
    hx.cover("step")


def cases(tier, seed):
    out = []
    plans = [(2, ALPHABET, True), (3, LATE, False)]
    for d, firsts, full in plans:
        for first in firsts:
            for fs in (("ShortData", "UDP_IP_compression") if first.startswith("data-header") else (None,)):
                if d == 3 and first.startswith("data-header") and (tier == "quick" or fs != "ShortData"):
                    # measured: depth 3 opening with a data header takes 10 min (short data) / more than 19 min (UDP/IP compression) per case;
                    # the short-data variant is in the thorough tier, the UDP/IP variant is outside the claim at depth 3 (it is covered at depth 2)
                    continue
                out.append(Case("history-d%d-%s-%s%s" % (d, "full" if full else "core", first, "-" + fs if fs else ""), "h_history",
                                dict(first=first, depth=d, raising=False, two_slots=False, full=full, first_sap=fs), covers=["history"], budget_s=1500, opts=OPTS,
                                bounds="all histories of depth %d starting with %s%s over the %s alphabet, on timeslot 1" % (d, first, " (SAP %s)" % fs if fs else "", "10-class" if full else "6-class core")))
    for first in LATE:
        for fs in (("ShortData", "UDP_IP_compression") if first.startswith("data-header") else (None,)):
            sfx = "-" + fs if fs else ""
            out.append(Case("raising-d2-%s%s" % (first, sfx), "h_history", dict(first=first, depth=2, raising=True, two_slots=False, full=False, first_sap=fs), covers=["history"], budget_s=600, opts=OPTS,
                            bounds="depth 2 over the core alphabet with a first observer that raises on every notification"))
            out.append(Case("twoslots-d2-%s%s" % (first, sfx), "h_history", dict(first=first, depth=2, raising=False, two_slots=True, full=False, first_sap=fs), covers=["history"], budget_s=600, opts=OPTS,
                            bounds="depth 2 over the core alphabet, each burst on timeslot 1 or 2 (declared split)"))
    for opener, btf in (("data-header-u", 1), ("data-header-u", 2), ("data-header-c", 2), ("preamble", 2)):
        out.append(Case("interleave-%s-%d" % (opener, btf), "h_interleave", dict(opener=opener, btf=btf), covers=["interleave"], budget_s=900, opts=OPTS,
                        bounds="5 bursts: %s (blocks to follow %d) on timeslot 1, one burst of {voice header, terminator, preamble, data header, rate 1/2 block} on timeslot 2, "
                               "a rate 1/2 block on timeslot 1, one burst of {rate 1/2 block, terminator, preamble, voice header} on either timeslot, a rate 1/2 block on timeslot 1; payloads concrete" % (opener, btf)))
    for prefix in ([], ["voice-header"], ["voice-header", "voice-sync"], ["data-header-u"], ["preamble"], ["voice-header-any"]):
        for kind in (ALPHABET + ["voice-header-any"] if prefix != ["voice-header-any"] else ["terminator", "voice-header", "data-header-u", "voice-emb"]):
            out.append(Case("step-%s-then-%s" % ("+".join(prefix) or "idle", kind), "h_step", dict(prefix=prefix, kind=kind),
                            covers=["step"] + (["voice-label"] if kind == "voice-emb" and prefix[:1] == ["voice-header"] else []), budget_s=600, opts=OPTS,
                            bounds="one burst from the state after %r with an arbitrary 8-bit sequence counter and (voice) any last voice-burst label" % (prefix,)))
    return out
