"""C10 — rate 3/4 trellis coding is lossless for every 144-bit block.

Real code: Trellis34.encode / decode and all ten helpers (bits_to_tribits, tribits_to_points, points_to_dibits, interleave,
dibits_to_bits, bits_to_dibits, deinterleave, dibits_to_points, points_to_tribits, tribits_to_bits).
"""
from array import array
from bitarray import bitarray
from vf.api import Case, T, AND, OR, NOT, IMPLIES, IFF, EQ
from okdmr.dmrlib.etsi.fec.trellis import Trellis34

EXPLANATION = ("C10: the 144 data bits (or 18 octets, or all 196 received bits) are symbolic; the decoder's loop-carried state is reduced after "
               "every step by solver-proved equivalences (FRAIG-style sweeping), so the final identities are decided for all blocks at once.")
BOUNDS = {"quick": "complete: all 2^144 blocks as bits and as bytes; all 98-position dibit arrays; rejection clause: at each of the 49 steps, every reachable decoder state (all tribit prefixes) x every 4-bit point, all 2^196 streams for the symbol-mapping layers",
          "thorough": "same as quick plus the injectivity (2-safety) form"}
OUTSIDE = "error correction (the decoder implements none)"
ASSUMPTIONS = []
SWEEP = dict(sweep=True, solver_timeout_ms=120000)


def h_bits(hx):
    x = hx.ba(144, "x")
    snap = x.copy()
    enc = Trellis34.encode(x)
    hx.prove(x == snap, "encode leaves its input unchanged")
    hx.prove(len(enc) == 196, "encode yields exactly 196 bits")
    sent = enc.copy()
    dec = Trellis34.decode(enc)
    hx.prove(dec == x, "decode(encode(x)) == x for every 144-bit block")
    hx.prove(enc == sent, "decode leaves the received buffer unchanged")
    hx.prove(Trellis34.decode(enc, as_bytes=True) == x.tobytes(), "decode(.., as_bytes=True) == the block's 18 octets")
    hx.cover("bits")


def h_bytes(hx):
    data = hx.bytes(18, "b")
    enc = Trellis34.encode(data)
    hx.prove(len(enc) == 196, "encode(bytes) yields exactly 196 bits")
    bits = bitarray(endian="big")
    bits.frombytes(data)
    hx.prove(enc == Trellis34.encode(bits), "encode(bytes) == encode(bits of the same block)")
    hx.prove(Trellis34.decode(enc, as_bytes=True) == data, "decode(encode(bytes), as_bytes=True) == bytes")
    keep = enc.copy()
    enc.invert(0)
    enc.invert(195)
    hx.prove(Trellis34.encode(data) == keep, "encode(bytes) is unaffected by in-place changes to a previously returned stream")
    hx.cover("bytes")


def h_sequence(hx):
    """decoding is stateless: after decoding an ACCEPTED stream whose last (flushing) tribit is arbitrary, and after a rejected one,
    a valid codeword still decodes to its block"""
    t = array("B", [hx.int(3, "t%d" % i) for i in range(49)])          # any tribit sequence, last one not forced to 0
    pts = Trellis34.tribits_to_points(t)
    stream = Trellis34.dibits_to_bits(Trellis34.interleave(Trellis34.points_to_dibits(pts)))
    st, r = hx.guard(Trellis34.decode, stream)
    hx.prove(st == "ok", "a stream built from any 49 tribits is accepted")
    x = hx.ba(144, "x")
    hx.prove(Trellis34.decode(Trellis34.encode(x)) == x, "decode(encode(x)) == x right after decoding another accepted stream (no state carried over)")
    bad = Trellis34.encode(x)
    bad.invert(hx.concretize(hx.int(2, "pos")) * 50)
    hx.guard(Trellis34.decode, bad)
    hx.prove(Trellis34.decode(Trellis34.encode(x)) == x, "decode(encode(x)) == x right after a damaged stream was decoded or rejected")
    hx.cover("sequence")


def h_state(hx):
    """light-weight companion of h_sequence: the first stream is the all-zero tribit sequence with an ARBITRARY last (flushing) tribit,
    or a rejected stream; afterwards three concrete blocks must still round-trip"""
    t = array("B", [0] * 48 + [hx.concretize(hx.int(3, "last"))])          # declared 8-way split on the final tribit
    stream = Trellis34.dibits_to_bits(Trellis34.interleave(Trellis34.points_to_dibits(Trellis34.tribits_to_points(t))))
    st, r = hx.guard(Trellis34.decode, stream)
    hx.prove(st == "ok", "a valid point sequence with any final tribit is accepted")
    for name, block in (("zeros", bitarray("0" * 144)), ("ones", bitarray("1" * 144)), ("pattern", bitarray("110100101" * 16))):
        st2, d = hx.guard(Trellis34.decode, Trellis34.encode(block))
        hx.prove(st2 == "ok", "block %s: a valid codeword is accepted after another stream was decoded" % name)
        if st2 == "ok":
            hx.prove(d == block, "block %s: decode(encode(x)) == x after another stream was decoded (no state carried over)" % name)
    hx.cover("state")


def h_perm(hx):
    a = array("b", [hx.sint(8, "a%d" % i) for i in range(98)])
    b = Trellis34.deinterleave(Trellis34.interleave(a))
    hx.prove(b == a, "deinterleave(interleave(a)) == a for every 98-entry array")
    c = Trellis34.interleave(Trellis34.deinterleave(a))
    hx.prove(c == a, "interleave(deinterleave(a)) == a for every 98-entry array")
    hx.prove(sorted(Trellis34.TRELLIS34_INTERLEAVE_MATRIX) == list(range(98)), "the interleave matrix is a permutation of the 98 dibit positions")
    hx.cover("perm")


def h_reject(hx, pos):
    """Step `pos` of the decoder from every reachable state with every received point.
    The first `pos` points are the encoder's own output for symbolic tribits (so the decoder arrives at step `pos` in an arbitrary
    reachable state), the point at step `pos` is an arbitrary symbolic 4-bit value and the sequence ends there (for pos < 48 the
    decoder then runs out of input and raises IndexError, which tells 'accepted at step pos' from the AssertionError of a rejection).
    Oracle: the point is a legal successor iff the ENCODER emits it from that state for one of the 8 tribits.
    Proved: rejected <=> not a legal successor - a point no encoder state can emit at that step is never decoded, and no legal point is refused."""
    t = [hx.int(3, "t%d" % i) for i in range(pos)]
    p = hx.int(4, "p")
    prefix = Trellis34.tribits_to_points(array("B", t)) if pos else array("B")
    legal = 0
    for k in range(8):
        legal = OR(legal, Trellis34.tribits_to_points(array("B", t + [k]))[pos] == p)
    seq = array("B", list(prefix) + [p])
    st, r = hx.guard(Trellis34.points_to_tribits, seq)
    if st == "exc" and isinstance(r, AssertionError):
        hx.prove(NOT(legal), "step %d: a rejected point is not among the 8 points the encoder can emit from that state" % pos)
        hx.cover("rejected")
    else:
        hx.prove(st == "ok" if pos == 48 else isinstance(r, IndexError), "step %d: acceptance continues normally (only the truncation IndexError may follow)" % pos)
        hx.prove(legal, "step %d: an accepted point is one the encoder can emit from that state (illegal points are never decoded)" % pos)
        if st == "ok":
            hx.prove(Trellis34.tribits_to_points(r)[pos] == p, "step 48: the decoded tribit re-encodes to the received point")
        hx.cover("accepted")


def h_layers(hx):
    """the symbol-mapping layers around the trellis are bijections (so 'received stream' and 'point sequence' are interchangeable)"""
    e = hx.ba(196, "e")
    dibits = Trellis34.bits_to_dibits(e)
    hx.prove(Trellis34.dibits_to_bits(dibits) == e, "dibits_to_bits(bits_to_dibits(e)) == e for every 196-bit stream")
    points = Trellis34.dibits_to_points(dibits)
    hx.prove(Trellis34.points_to_dibits(points) == dibits, "points_to_dibits(dibits_to_points(d)) == d for every dibit array")
    pts = array("B", [hx.int(4, "q%d" % i) for i in range(49)])
    hx.prove(Trellis34.dibits_to_points(Trellis34.points_to_dibits(pts)) == pts, "dibits_to_points(points_to_dibits(p)) == p for every point array")
    x = hx.ba(144, "x")
    hx.prove(Trellis34.tribits_to_bits(Trellis34.bits_to_tribits(x)) == x, "tribits_to_bits(bits_to_tribits(x)) == x")
    hx.cover("layers")


def h_inject(hx):
    x, y = hx.ba(144, "x"), hx.ba(144, "y")
    hx.assume(NOT(x == y))
    hx.prove(NOT(Trellis34.encode(x) == Trellis34.encode(y)), "two different blocks give different encoded streams")
    hx.cover("inject")


def cases(tier, seed):
    out = [Case("roundtrip-bits", "h_bits", {}, covers=["bits"], budget_s=600, opts=SWEEP, bounds="144 symbolic bits"),
           Case("roundtrip-bytes", "h_bytes", {}, covers=["bytes"], budget_s=600, opts=SWEEP, bounds="18 symbolic octets"),
           Case("permutation", "h_perm", {}, covers=["perm"], budget_s=120, bounds="98 symbolic 8-bit entries"),
           Case("call-sequence-state", "h_state", {}, covers=["state"], budget_s=120, bounds="first stream: zero tribits with a symbolic final tribit; then three concrete blocks"),
           Case("call-sequence", "h_sequence", {}, covers=["sequence"], budget_s=300, opts=SWEEP, bounds="49 symbolic tribits + 144 symbolic bits; damaged stream: one inverted bit at 4 positions"),
           Case("layers", "h_layers", {}, covers=["layers"], budget_s=300, bounds="196 symbolic bits / 49 symbolic points / 144 symbolic bits")]
    for pos in range(49):
        out.append(Case("reject-pos%02d" % pos, "h_reject", dict(pos=pos), covers=["rejected", "accepted"], budget_s=600,
                        opts=dict(sweep=True, solver_timeout_ms=60000, max_paths=500),
                        bounds="%d symbolic tribits (every reachable decoder state at step %d) x symbolic 4-bit received point" % (pos, pos)))
    if tier == "thorough":
        out.append(Case("injective", "h_inject", {}, covers=["inject"], budget_s=1800, opts=SWEEP, bounds="two symbolic 144-bit blocks"))
    return out
