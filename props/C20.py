"""C20 — repeater storage keeps one record per source address with a stable identity.

Real code: RepeaterStorage.match_incoming / save / match_attr / match_ip_incoming / match_uuid / create_repeater / __len__ / all,
Repeater.__init__ / attr / delete_attr / patch.
One operation from an ARBITRARY valid state (which of 3 addresses are stored, each record's dmr_id and dynamic attribute symbolic),
plus bounded histories from the empty storage; operation kind and its arguments are symbolic choices.
"""
from vf.api import Case, T, AND, OR, NOT, IMPLIES, IFF, EQ
from okdmr.dmrlib.storage.repeater_storage import RepeaterStorage
from okdmr.dmrlib.storage.repeater import Repeater

EXPLANATION = ("C20: the pre-state (presence of each of 3 addresses, dmr ids, dynamic attribute presence and values), the operation and its arguments are symbolic; "
               "after the step the representation invariant, identity stability, the growth rule and the frame condition on every other record are proved.")
BOUNDS = {"quick": "one step (19 operation kinds) from every valid state over a pool of 3 addresses (two sharing an IP), 2 dynamic keys, 8-bit dmr ids / values; histories of depth 3 over 6 operation kinds and two addresses sharing an IP, from the empty storage",
          "thorough": "histories of depth 4"}
OUTSIDE = "patches that rename the id; pools larger than 3 addresses / 2 keys; histories beyond the stated depth (covered by the inductive step from an arbitrary valid state)"
ASSUMPTIONS = ["representation invariant of a valid state: dict key == record id, ids pairwise distinct, at most one record per address_in",
               "'processing' = the storage / repeater methods of the property's list called with arguments from the pools; a raised exception is a failure unless documented (match_uuid of an unknown id raises SystemError)"]

ADDRS = [("10.0.0.1", 50000), ("10.0.0.2", 50000), ("10.0.0.1", 50001)]
KEYS = ["k1", "k2"]
HISTORY_OPS = ["match_incoming", "match_incoming_create", "match_ip", "patch_field_none", "patch_address_in", "match_incoming_patch_attr"]
OPS = ["patch_field_none", "patch_address_in", "match_incoming", "match_incoming_create", "match_incoming_patch_field", "match_incoming_patch_attr", "match_incoming_create_patch", "save_patch", "save_nopatch", "match_attr_dmr",
       "match_attr_callsign", "match_ip", "match_uuid", "attr_write", "attr_read", "delete_attr", "patch_field", "patch_attr", "patch_both"]


def repo_dict(st):
    return st._RepeaterStorage__repeaters


def attrs_of(r):
    return dict(r._Repeater__attrs)


def snapshot(st):
    return {id(r): (r, r.id, r.address_in, r.address_out, r.dmr_id, r.callsign, attrs_of(r)) for r in st.all()}


def invariant(hx, st, when):
    d = repo_dict(st)
    recs = list(d.values())
    hx.prove(all(k == r.id for k, r in d.items()), "%s: every dict key is its record's id" % when)
    hx.prove(len({r.id for r in recs}) == len(recs), "%s: no two records share an id" % when)
    hx.prove(len({r.address_in for r in recs}) == len(recs), "%s: at most one record per incoming address" % when)
    hx.prove(len(st) == len(recs), "%s: len(storage) counts the records" % when)


def unchanged(hx, before, st, except_rec, what, changed_fields=(), changed_attrs=()):
    """frame condition: every record other than `except_rec` is untouched; `except_rec` only changes in the named fields / attrs"""
    now = {id(r): r for r in st.all()}
    for key, (r, rid, ain, aout, dmr, cs, at) in before.items():
        hx.prove(key in now, "%s: no record disappears" % what)
        mine = r is except_rec
        hx.prove(r.id == rid, "%s: record id is stable" % what)
        if not (mine and "address_in" in changed_fields):
            hx.prove(r.address_in == ain, "%s: incoming address is stable" % what)
        if not (mine and "dmr_id" in changed_fields):
            hx.prove(r.dmr_id == dmr, "%s: dmr_id of %s record untouched" % (what, "the matched" if mine else "another"))
        if not (mine and "callsign" in changed_fields):
            hx.prove(r.callsign == cs, "%s: callsign of %s record untouched" % (what, "the matched" if mine else "another"))
        if not (mine and "address_out" in changed_fields):
            hx.prove(r.address_out == aout, "%s: address_out of %s record untouched" % (what, "the matched" if mine else "another"))
        cur = attrs_of(r)
        for k in KEYS:
            if mine and k in changed_attrs:
                continue
            hx.prove((k in cur) == (k in at), "%s: presence of attr %s of %s record untouched" % (what, k, "the matched" if mine else "another"))
            if k in cur and k in at:
                hx.prove(cur[k] == at[k], "%s: value of attr %s of %s record untouched" % (what, k, "the matched" if mine else "another"))


def build_state(hx):
    st = RepeaterStorage()
    recs = {}
    for i, a in enumerate(ADDRS):
        if hx.flag("present%d" % i):
            r = st.match_incoming(a, auto_create=True)
            r.dmr_id = hx.int(8, "dmr%d" % i)
            r.callsign = "C%d" % i
            if hx.flag("has_k1_%d" % i):
                r.attr("k1", hx.int(8, "k1val%d" % i) + 1)
            recs[i] = r
    return st, recs


NEW_ADDR = ("10.0.0.9", 40000)


def step(hx, st, n, tag, ops=None, small=False):
    """one symbolic operation; returns nothing, proves the per-step clauses"""
    op = hx.pick("op%d" % n, ops or OPS)
    ai = hx.pick("addr%d" % n, [0, 2] if small else [0, 1, 2])
    addr = ADDRS[ai]
    key = KEYS[0] if small else hx.pick("key%d" % n, KEYS)
    val = hx.int(8, "val%d" % n) + 1
    before = snapshot(st)
    n_before = len(st)
    # identity stability across the step: what each pool address / IP resolves to before the operation ...
    ips = sorted({a[0] for a in ADDRS})
    by_addr_before = {a: st.match_incoming(a) for a in ADDRS}
    by_ip_before = {ip: st.match_ip_incoming(ip) for ip in ips}
    existing = [r for r in st.all() if r.address_in == addr]
    rec = existing[0] if existing else None
    what = "%s %s" % (tag, op)

    def call(fn, *a, **k):
        st_, r_ = hx.guard(fn, *a, **k)
        hx.prove(st_ == "ok", "%s: processing does not fail (%s: %s)" % (what, type(r_).__name__ if st_ == "exc" else "", r_ if st_ == "exc" else ""))
        return st_, r_

    if op in ("match_incoming", "match_incoming_create", "match_incoming_patch_field", "match_incoming_patch_attr", "match_incoming_create_patch"):
        create = op in ("match_incoming_create", "match_incoming_create_patch")
        patch = {"match_incoming_patch_field": {"dmr_id": val}, "match_incoming_patch_attr": {key: val}, "match_incoming_create_patch": {"callsign": "NEW", key: val}}.get(op, {})
        s_, got = call(st.match_incoming, addr, auto_create=create, patch=patch)
        if s_ == "ok":
            if rec is not None:
                hx.prove(got is rec, "%s: same object (same id) for the same incoming address" % what)
                hx.prove(len(st) == n_before, "%s: a look-up of a known address never grows the storage" % what)
            elif create:
                hx.prove(got is not None and got.address_in == addr, "%s: auto-creating look-up returns the new record" % what)
                hx.prove(len(st) == n_before + 1, "%s: exactly one record is created for an unseen address" % what)
                hx.prove(st.match_incoming(addr) is got, "%s: the created record is found again" % what)
            else:
                hx.prove(got is None, "%s: unknown address without auto-create gives None" % what)
                hx.prove(len(st) == n_before, "%s: a look-up without auto-create never grows the storage" % what)
            target = got
            if target is not None and patch:
                for f, v in patch.items():
                    if f in ("dmr_id", "callsign"):
                        hx.prove(getattr(target, f) == v, "%s: patched field %s has the new value" % (what, f))
                    else:
                        hx.prove(target.attr(f) == v, "%s: patched attr %s has the new value" % (what, f))
            unchanged(hx, before, st, target, what, changed_fields=[f for f in patch if f in ("dmr_id", "callsign")], changed_attrs=[f for f in patch if f in KEYS])
        else:
            hx.prove(len(st) == n_before, "%s: a failed look-up leaves the size unchanged" % what)
    elif op in ("save_patch", "save_nopatch"):
        if rec is None:
            return
        patch = {"dmr_id": val} if op == "save_patch" else {}
        s_, got = call(st.save, rec, patch=patch)
        if s_ == "ok":
            hx.prove(got is rec and len(st) == n_before, "%s: save returns the record and never grows the storage" % what)
            if patch:
                hx.prove(rec.dmr_id == val, "%s: patched field has the new value" % what)
            unchanged(hx, before, st, rec, what, changed_fields=list(patch))
    elif op == "match_attr_dmr":
        v = hx.int(8, "probe%d" % n)
        s_, got = call(st.match_attr, "dmr_id", v)
        if s_ == "ok":
            hx.prove(got is None or got.dmr_id == v, "%s: a match has the value asked for" % what)
            hx.prove(IMPLIES(OR(*[r.dmr_id == v for r in st.all()]), got is not None), "%s: an existing value is found" % what)
            hx.prove(len(st) == n_before, "%s: look-up never grows the storage" % what)
            unchanged(hx, before, st, None, what)
    elif op == "match_attr_callsign":
        s_, got = call(st.match_attr, "callsign", "C%d" % ai)
        if s_ == "ok":
            cands = [r for r in st.all() if r.callsign == "C%d" % ai]
            hx.prove((got is cands[0]) if cands else got is None, "%s: callsign look-up finds exactly the record carrying it" % what)
            unchanged(hx, before, st, None, what)
    elif op == "match_ip":
        s_, got = call(st.match_ip_incoming, addr[0])
        if s_ == "ok":
            cands = [r for r in st.all() if r.address_in[0] == addr[0]]
            hx.prove((got is cands[0]) if cands else got is None, "%s: IP look-up returns the (first stored, hence stable) record with that IP, or None" % what)
            hx.prove(len(st) == n_before, "%s: look-up never grows the storage" % what)
            unchanged(hx, before, st, None, what)
    elif op == "match_uuid":
        if rec is None:
            return
        s_, got = call(st.match_uuid, rec.id)
        if s_ == "ok":
            hx.prove(got is rec, "%s: id look-up returns the record" % what)
            unchanged(hx, before, st, None, what)
    elif op == "patch_field_none":
        if rec is None:
            return
        s_, got = call(rec.patch, {"callsign": None})
        if s_ == "ok":
            hx.prove(rec.callsign is None, "%s: a built-in field named in the patch takes the new value, None included" % what)
            unchanged(hx, before, st, rec, what, changed_fields=["callsign"])
    elif op == "patch_address_in":
        if rec is None or any(r.address_in == NEW_ADDR for r in st.all()):
            return
        s_, got = call(st.save, rec, patch={"address_in": NEW_ADDR})
        if s_ == "ok":
            hx.prove(rec.address_in == NEW_ADDR, "%s: the incoming address named in the patch is changed" % what)
            hx.prove(st.match_incoming(NEW_ADDR) is rec, "%s: the record is found under its new address" % what)
            hx.prove(st.match_incoming(addr) is None, "%s: nothing is found under the old address any more" % what)
            hx.prove(len(st) == n_before, "%s: moving a record does not change the size" % what)
        invariant(hx, st, "after " + what)
        return
    elif op in ("attr_write", "attr_read", "delete_attr", "patch_field", "patch_attr", "patch_both"):
        if rec is None:
            return
        had = key in attrs_of(rec)
        old = attrs_of(rec).get(key)
        if op == "attr_write":
            s_, got = call(rec.attr, key, val)
            if s_ == "ok":
                hx.prove(AND(got == val, rec.attr(key) == val), "%s: attr write returns and stores the value" % what)
                unchanged(hx, before, st, rec, what, changed_attrs=[key])
        elif op == "attr_read":
            s_, got = call(rec.attr, key)
            if s_ == "ok":
                hx.prove((got == old) if had else got is None, "%s: attr read returns the stored value or None" % what)
                unchanged(hx, before, st, None, what)
        elif op == "delete_attr":
            s_, got = call(rec.delete_attr, key)
            if s_ == "ok":
                hx.prove(got == had, "%s: delete_attr returns whether the attr was defined" % what)
                hx.prove(key not in attrs_of(rec), "%s: attr is gone afterwards" % what)
                unchanged(hx, before, st, rec, what, changed_attrs=[key])
        else:
            patch = {"patch_field": {"dmr_id": val}, "patch_attr": {key: val}, "patch_both": {"callsign": "P", key: val, "address_out": ("out", 1)}}[op]
            s_, got = call(rec.patch, patch)
            if s_ == "ok":
                hx.prove(got is rec, "%s: patch returns the record" % what)
                for f, v in patch.items():
                    hx.prove((getattr(rec, f) == v) if f in ("dmr_id", "callsign", "address_out") else (rec.attr(f) == v), "%s: patched %s has the new value" % (what, f))
                unchanged(hx, before, st, rec, what, changed_fields=[f for f in patch if f in ("dmr_id", "callsign", "address_out")], changed_attrs=[f for f in patch if f in KEYS])
    # ... is what it resolves to afterwards (no operation here moves or removes a record; a record created by the step can only answer
    # for an address / IP that had no record before)
    for a in ADDRS:
        if by_addr_before[a] is not None:
            hx.prove(st.match_incoming(a) is by_addr_before[a], "%s: address %s:%d still resolves to the same record (same id) afterwards" % (what, a[0], a[1]))
    for ip in ips:
        if by_ip_before[ip] is not None:
            hx.prove(st.match_ip_incoming(ip) is by_ip_before[ip], "%s: IP %s still resolves to the same record afterwards" % (what, ip))
    invariant(hx, st, "after " + what)


def h_step(hx, op):
    st, recs = build_state(hx)
    invariant(hx, st, "constructed pre-state")
    step(hx, st, 0, "one step:", ops=[op])
    hx.cover("step")


def h_history(hx, depth):
    st = RepeaterStorage()
    for n in range(depth):
        step(hx, st, n, "history step %d:" % n, ops=HISTORY_OPS, small=True)
    hx.cover("history")


def cases(tier, seed):
    return [Case("one-step-" + op, "h_step", dict(op=op), covers=["step"], budget_s=900, opts=dict(max_paths=60000, max_violations=10),
                 bounds="arbitrary valid state over 3 addresses, operation %s, arguments from the pools" % op) for op in OPS] + [
            Case("history-%d" % (3 if tier == "quick" else 4), "h_history", dict(depth=3 if tier == "quick" else 4), covers=["history"], budget_s=1800,
                 opts=dict(max_paths=200000, max_violations=10), bounds="all operation sequences of the stated depth from the empty storage")]
