"""C05 — each DMR CRC equals the polynomial remainder the standard defines, with its mask.

Real code run symbolically: BitCrcRegister / TableBasedBitCrcRegister / BitCrcCalculator (crc.py), CRC8/CRC9/CRC16/CRC32
front ends, bytes_to_bits / byteswap_bytes, CrcMasks.
Oracle: schoolbook GF(2) division of m(x)·x^w by g(x), g from ETSI TS 102 361-1 B.3.7-B.3.10 as literals (NOT from crc.py).
"""
from bitarray import bitarray
from sxl.bits import Bit, bxor
from vf.api import Case, T, AND, OR, NOT, IMPLIES, IFF, EQ, weight
from okdmr.dmrlib.etsi.crc.crc import BitCrcCalculator, Crc16, Crc9, Crc32, Crc8, Crc7
from okdmr.dmrlib.etsi.crc.crc8 import CRC8
from okdmr.dmrlib.etsi.crc.crc9 import CRC9
from okdmr.dmrlib.etsi.crc.crc16 import CRC16
from okdmr.dmrlib.etsi.crc.crc32 import CRC32
from okdmr.dmrlib.etsi.layer2.elements.crc_masks import CrcMasks

# generator polynomials without the top term (ETSI TS 102 361-1 annex B.3):
#   CRC-7  x^7+x^5+x^2+x+1 ; CRC-8 x^8+x^2+x+1 ; CRC-9 x^9+x^6+x^4+x^3+1 ; CCITT x^16+x^12+x^5+1 ; CRC-32 (IEEE 802.3 polynomial)
POLY = {7: 0x27, 8: 0x07, 9: 0x59, 16: 0x1021, 32: 0x04C11DB7}
CFG = {7: Crc7.ETSI_DMR, 8: Crc8.ETSI_DMR, 9: Crc9.ETSI_DMR, 16: Crc16.ETSI_DMR, 32: Crc32.ETSI_DMR}

EXPLANATION = ("C05: bitwise and table-driven CRC registers and the four front ends are compared with an independent polynomial-division "
               "reference for every message length in the bound, all message bits symbolic (one symbolic run = all 2^n messages).")
BOUNDS = {"quick": "message lengths n = 0..120 bits for widths 7/8/9/16/32 (both register kinds, re-initialisation); byte front ends 0..12 octets; "
                   "CRC-9 parts for 10/16/22-octet blocks with and without CRC-32; detection: bursts <= w over 96/120 bits, weight 1..3 over 80 data bits (CCITT)",
          "thorough": "message lengths n = 0..400 bits; byte front ends 0..48 octets; detection as quick plus bursts over 200 bits"}
OUTSIDE = "n > 400 bits; reverse_input_bytes / reverse_output_bytes configurations (no ETSI configuration uses them)"
ASSUMPTIONS = ["generator polynomials and the inversion/mask/byte-order rules of the reference are transcribed from ETSI TS 102 361-1 B.3.7-B.3.12 into props/C05.py",
               "CRC-32 reference order: octets swapped pairwise, each octet most-significant bit first; the value is what the captured last blocks carry little-endian (B.3.9; cross-checked against the three captured vectors of the repository's test_crc32)"]


def ref_crc(bits, w):
    """remainder of m(x)*x^w mod g(x); bits: list of Bit|0|1, MSB (first transmitted) first -> list of w bits"""
    poly = [(POLY[w] >> (w - 1 - i)) & 1 for i in range(w)]
    reg = [0] * w
    for b in list(bits) + [0] * w:
        top = reg[0]
        reg = reg[1:] + [b]
        reg = [bxor(r, top) if p else r for r, p in zip(reg, poly)]
    return reg


def bits_to_int(bits):
    from sxl.ints import SInt
    return SInt.from_bits(list(bits)[::-1])


def octet_bits_msb(o):
    from sxl.sbytes import octet_bits
    return octet_bits(o)


def h_engine(hx, w, n_lo, n_hi):
    """bitwise and table-driven registers vs reference, every length in [n_lo, n_hi]"""
    for n in range(n_lo, n_hi + 1):
        data = hx.ba(n, "d")
        ref = bitarray(ref_crc(data.tolist(), w))
        for tb in (False, True):
            calc = BitCrcCalculator(CFG[w], table_based=tb)
            snapshot = data.copy()
            r1 = calc.calculate_checksum(data)
            hx.prove(len(r1) == w, "crc%d n=%d table=%s: result has %d bits" % (w, n, tb, w))
            hx.prove(r1 == ref, "crc%d n=%d table=%s == polynomial remainder" % (w, n, tb))
            r2 = calc.calculate_checksum(data)
            hx.prove(r1 == r2, "crc%d n=%d table=%s: second calculation on the same calculator agrees" % (w, n, tb))
            hx.prove(data == snapshot, "crc%d n=%d table=%s: input buffer unchanged" % (w, n, tb))
    hx.cover("w%d" % w)


def h_front16(hx, nbytes):
    data = hx.bytes(nbytes, "b")
    bits = []
    for o in data:
        bits.extend(octet_bits_msb(o))
    ref = ref_crc(bits, 16)
    inv = bits_to_int([bxor(x, 1) for x in ref])
    c = hx.int(16, "c")
    for m in CrcMasks:
        got = CRC16.calculate(data, m)
        hx.prove(got == (inv ^ m.value), "CRC16.calculate(%d octets, %s) == ~remainder ^ mask" % (nbytes, m.name))
    buf = bytearray(data)
    g1 = CRC16.calculate(buf, CrcMasks.CSBK)
    g2 = CRC16.calculate(buf, CrcMasks.CSBK)
    hx.prove(AND(bytes(buf) == data, g1 == (inv ^ CrcMasks.CSBK.value), g2 == g1), "CRC16.calculate on a bytearray: buffer unchanged, same value twice (%d octets)" % nbytes)
    for m in (CrcMasks.CSBK, CrcMasks.DataHeader, CrcMasks.PiHeader, CrcMasks.MBCHeader, CrcMasks.UnifiedSingleBlockData):
        hx.prove(IFF(CRC16.check(data, c, m), c == (inv ^ m.value)), "CRC16.check accepts exactly the computed value (%s, %d octets)" % (m.name, nbytes))
    hx.cover("ccitt")


def h_front32(hx, nbytes):
    data = hx.bytes(nbytes, "b")
    octs = list(data)
    sw = list(octs)
    for i in range(0, len(octs) - 1, 2):
        sw[i], sw[i + 1] = octs[i + 1], octs[i]
    bits = []
    for o in sw:
        bits.extend(octet_bits_msb(o))
    ref = bits_to_int(ref_crc(bits, 32))
    got = CRC32.calculate(data)
    hx.prove(got == ref, "CRC32.calculate(%d octets) == remainder over pair-swapped octets" % nbytes)
    c = hx.int(32, "c")
    hx.prove(IFF(CRC32.check(data, c), c == ref), "CRC32.check accepts exactly the computed value (%d octets)" % nbytes)
    # the same bytes handed over in a mutable buffer, twice: same value, buffer untouched
    buf = bytearray(data)
    g1 = CRC32.calculate(buf)
    hx.prove(bytes(buf) == data, "CRC32.calculate leaves a bytearray argument unchanged (%d octets)" % nbytes)
    g2 = CRC32.calculate(buf)
    hx.prove(AND(g1 == ref, g2 == ref), "CRC32.calculate on a bytearray, called twice, returns the reference value both times (%d octets)" % nbytes)
    hx.cover("crc32")


def h_front8(hx, n):
    data = hx.ba(n, "d")
    ref = bits_to_int(ref_crc(data.tolist(), 8))
    hx.prove(CRC8.calculate(data) == ref, "CRC8.calculate(%d bits) == remainder" % n)
    c = hx.int(8, "c")
    hx.prove(IFF(CRC8.check(data, c), c == ref), "CRC8.check accepts exactly the computed value (%d bits)" % n)
    # a different message of another length in between must not influence the next result
    for extra in (1, 8):
        other = hx.ba(n + extra, "o%d" % extra)
        ref_o = bits_to_int(ref_crc(other.tolist(), 8))
        hx.prove(CRC8.calculate(other) == ref_o, "CRC8.calculate(%d bits) right after a calculation over %d bits == remainder" % (n + extra, n))
        hx.prove(CRC8.calculate(data) == ref, "CRC8.calculate(%d bits) unchanged after an unrelated calculation over %d bits" % (n, n + extra))
    hx.cover("crc8")


def h_front9(hx, nbytes, with_crc32):
    data = hx.bytes(nbytes, "b")
    dbsn = hx.int(7, "dbsn")
    bits = []
    for o in data:
        bits.extend(octet_bits_msb(o))
    crc32 = None
    if with_crc32:
        crc32 = hx.bytes(4, "k")
        for o in crc32:
            bits.extend(octet_bits_msb(o))
    from sxl.ints import SInt
    db = SInt.of(dbsn).ubits(7)[::-1] if not isinstance(dbsn, int) else [(dbsn >> (6 - i)) & 1 for i in range(7)]
    bits.extend(db)
    ref = ref_crc(bits, 9)
    inv = bits_to_int([bxor(x, 1) for x in ref])
    c = hx.int(9, "c")
    for m in (CrcMasks.Rate12DataContinuation, CrcMasks.Rate34DataContinuation, CrcMasks.Rate1DataContinuation):
        got = CRC9.calculate_from_parts(data=data, serial_number=dbsn, mask=m, crc32=crc32)
        hx.prove(got == (inv ^ m.value), "CRC9.calculate_from_parts(%d octets, crc32=%s, %s) == ~remainder(data|crc32|dbsn) ^ mask" % (nbytes, with_crc32, m.name))
        hx.prove(IFF(CRC9.check(data, dbsn, c, m, crc32), c == (inv ^ m.value)), "CRC9.check accepts exactly the computed value (%s)" % m.name)
    hx.cover("crc9")


def h_burst(hx, w, n):
    """two equal-length messages differing by a non-zero burst of length <= w get different CRCs (real engine, table mode).
    The burst start is a declared split (forked), the burst interior is symbolic."""
    m = hx.bits(n, "m")
    k = max(1, n.bit_length())
    s = hx.int(k, "s")
    hx.assume(s < n)
    s = hx.concretize(s)
    b = [1] + hx.bits(w - 1, "e")                      # a burst starts with a differing bit
    e = ([0] * s + b + [0] * n)[:n]
    calc = BitCrcCalculator(CFG[w], table_based=True)
    c1 = calc.calculate_checksum(bitarray(m))
    c2 = calc.calculate_checksum(bitarray([bxor(x, y) for x, y in zip(m, e)]))
    hx.prove(NOT(c1 == c2), "crc%d over %d bits: a burst of length <= %d changes the CRC" % (w, n, w))
    hx.cover("burst")


def h_weight3(hx):
    """CCITT over 80 data bits (96-bit PDU): messages differing in 1..3 bits have different CRCs; the three error positions are symbolic"""
    n = 80
    m = hx.bits(n, "m")
    p1, p2, p3 = hx.int(7, "p1"), hx.int(7, "p2"), hx.int(7, "p3")
    h2, h3 = hx.bit("has2"), hx.bit("has3")
    hx.assume(AND(p1 < n, p2 < n, p3 < n, p1 < p2, p2 < p3, IMPLIES(h3, h2)))
    e = [bxor(bxor(T(p1 == i), AND(h2, p2 == i)), AND(h3, p3 == i)) for i in range(n)]
    data1 = bitarray(m)
    data2 = bitarray([bxor(a, b) for a, b in zip(m, e)])
    c1 = CRC16.calculate(data1.tobytes(), CrcMasks.CSBK)
    c2 = CRC16.calculate(data2.tobytes(), CrcMasks.CSBK)
    hx.prove(NOT(c1 == c2), "CCITT, 80 data bits: 1..3 differing bits (symbolic positions) give a different CRC")
    hx.cover("w3")


def cases(tier, seed):
    out = []
    nmax = 120 if tier == "quick" else 400
    step = 20 if tier == "quick" else 25
    for w in (7, 8, 9, 16, 32):
        lo = 0
        while lo <= nmax:
            hi = min(nmax, lo + step - 1)
            out.append(Case("engine-w%d-n%d..%d" % (w, lo, hi), "h_engine", dict(w=w, n_lo=lo, n_hi=hi), covers=["w%d" % w],
                            budget_s=300, bounds="crc%d, n=%d..%d, all message bits symbolic" % (w, lo, hi)))
            lo = hi + 1
    bmax = 12 if tier == "quick" else 48
    for nb in range(0, bmax + 1):
        out.append(Case("ccitt-front-%d" % nb, "h_front16", dict(nbytes=nb), covers=["ccitt"], budget_s=120, bounds="%d symbolic octets, all masks" % nb))
        out.append(Case("crc32-front-%d" % nb, "h_front32", dict(nbytes=nb), covers=["crc32"], budget_s=120, bounds="%d symbolic octets" % nb))
    for n in ([0, 1, 7, 8, 28, 36, 72, 77] if tier == "quick" else list(range(0, 97))):
        out.append(Case("crc8-front-%d" % n, "h_front8", dict(n=n), covers=["crc8"], budget_s=60, bounds="%d symbolic bits" % n))
    for nb in (10, 16, 22, 6, 12, 18):
        for wc in (False, True):
            out.append(Case("crc9-parts-%d-%s" % (nb, "crc32" if wc else "plain"), "h_front9", dict(nbytes=nb, with_crc32=wc), covers=["crc9"],
                            budget_s=120, bounds="%d symbolic octets, symbolic 7-bit DBSN%s" % (nb, ", symbolic CRC-32 octets" if wc else "")))
    for w, n in ((7, 96), (8, 96), (9, 96), (16, 96), (32, 120)) + (() if tier == "quick" else ((16, 200), (32, 200), (9, 200))):
        out.append(Case("burst-w%d-n%d" % (w, n), "h_burst", dict(w=w, n=n), covers=["burst"], budget_s=300,
                        bounds="two symbolic %d-bit messages, symbolic burst start and interior" % n))
    out.append(Case("weight3", "h_weight3", {}, covers=["w3"], budget_s=300,
                    bounds="80 symbolic data bits, error weight 1..3 at symbolic positions (all C(80,1)+C(80,2)+C(80,3) supports in one query)"))
    return out
