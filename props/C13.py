"""C13 — Hytera IPSC frames map to bursts identically by either decoder and re-encode.

Real code: HyteraIPSC.from_ipsc_bytes / from_kaitai / as_ipsc_bytes, Burst.from_hytera_ipsc, HyteraIPSCSync / HyteraIPSCWakeup,
byteswap_bytes, half_byte_to_bytes, the ipsc_elements enums and the GENERATED kaitai parser IpSiteConnectProtocol._read (run over a
stream stand-in on symbolic bytes).
"""
from vf.api import Case, T, AND, OR, NOT, IMPLIES, IFF, EQ
from okdmr.dmrlib.etsi.layer2.burst import Burst
from okdmr.dmrlib.hytera.hytera_ipsc import HyteraIPSC
from okdmr.dmrlib.hytera.ipsc_elements.call_type import CallType
from okdmr.dmrlib.hytera.ipsc_elements.frame_type import FrameType
from okdmr.dmrlib.hytera.ipsc_elements.packet_type import PacketType
from okdmr.dmrlib.hytera.ipsc_elements.slot_type import SlotType
from okdmr.dmrlib.hytera.ipsc_elements.timeslot import Timeslot
from okdmr.kaitai.hytera.ip_site_connect_protocol import IpSiteConnectProtocol

EXPLANATION = ("C13: sequence number, reserved octets, both radio ids, colour nibble and the 34 payload octets are symbolic; packet / slot / frame / call type and timeslot are declared splits "
               "over the defined codes. The generated kaitai parser runs on the symbolic frame through a stream stand-in.")
BOUNDS = {"quick": "slot types CSBK, voice frame A, sync (VoiceOrDataSync), wake-up x both timeslots x call types x packet types; sequence 0..255, colour 0..15, ids 0..2^24-1, reserved and payload octets arbitrary",
          "thorough": "all 15 defined slot types"}
OUTSIDE = "frames the generic parser rejects (fixed header != 5a5a); frames longer than 72 octets"
ASSUMPTIONS = ["well-formed frame: the 24-bit id occupies the upper three octets of its little-endian 4-octet slot and the low octet is 0; the colour code nibble is replicated into all four nibbles of its 2-octet field; "
               "the padding octet of the byte-swapped 34-octet payload is 0 (as in every captured frame of the repository's tests)",
               "payloads are arbitrary 33 octets: the burst parser accepts any content for sync / wake-up / voice kinds; for data kinds the payload is a library-assembled CSBK burst"]


def kaitai_parse(hx, frame):
    if hx.symbolic:
        from sxl.kstream import SymKaitaiStream
        return IpSiteConnectProtocol(SymKaitaiStream(frame))
    return IpSiteConnectProtocol.from_bytes(frame)


def build_frame(hx, slot, ts, call, pkt, frame_type, pfx=""):
    seq = hx.int(8, pfx + "seq")
    cc = hx.int(4, pfx + "cc")
    dst, src = hx.int(24, pfx + "dst"), hx.int(24, pfx + "src")
    r3, r7, r2a, r2b, r1 = hx.bytes(3, pfx + "r3"), hx.bytes(7, pfx + "r7"), hx.bytes(2, pfx + "r2a"), hx.bytes(2, pfx + "r2b"), hx.bytes(1, pfx + "r1")
    port = hx.bytes(2, pfx + "port")
    bits = hx.ba(264, pfx + "pl")
    # "payload that parses as the indicated burst kind": for the voice / sync / wake-up kinds the 48 centre bits are not one of the
    # SYNC patterns (they then carry embedded signalling and the 216 outer bits are opaque vocoder / proprietary content)
    from okdmr.dmrlib.etsi.layer2.elements.sync_patterns import SyncPatterns
    from bitarray.util import ba2int
    centre = ba2int(bits[108:156])
    hx.assume(AND(*[centre != p.value for p in SyncPatterns if p.value >= 0]))
    burst33 = bits.tobytes()
    sw = list(burst33) + [0]
    swapped = []
    for i in range(0, 34, 2):
        swapped += [sw[i + 1], sw[i]]
    ccb = cc * 16 + cc
    frame = bytes(list(port) + [0x5A, 0x5A, seq] + list(r3) + [pkt] + list(r7) + [ts & 0xFF, ts >> 8, slot & 0xFF, slot >> 8, ccb, ccb,
                  frame_type & 0xFF, frame_type >> 8] + list(r2a) + swapped + list(r2b) + [call]
                  + [0, dst & 0xFF, (dst >> 8) & 0xFF, dst >> 16] + [0, src & 0xFF, (src >> 8) & 0xFF, src >> 16] + list(r1))
    return frame, dict(seq=seq, cc=cc, dst=dst, src=src, burst33=burst33)


def h_frame(hx, slot, frame_type):
    ts = hx.pick("ts", [Timeslot.Timeslot_1.value, Timeslot.Timeslot_2.value])
    call = hx.pick("call", [c.value for c in CallType])
    pkt = hx.pick("pkt", [p.value for p in PacketType])
    frame, f = build_frame(hx, slot, ts, call, pkt, frame_type)
    hx.prove(len(frame) == 72, "frame is 72 octets")
    tag = "slot %s" % SlotType(slot).name
    st1, raw = hx.guard(HyteraIPSC.from_ipsc_bytes, frame)
    st2, kai = hx.guard(lambda: HyteraIPSC.from_kaitai(kaitai_parse(hx, frame)))
    hx.prove(st1 == "ok", "%s: raw decoder accepts a well-formed frame (%s)" % (tag, raw if st1 == "exc" else ""))
    hx.prove(st2 == "ok", "%s: generic-parser decoder accepts a well-formed frame (%s)" % (tag, kai if st2 == "exc" else ""))
    if st1 != "ok" or st2 != "ok":
        return
    for name, obj in (("raw", raw), ("generic", kai)):
        hx.prove(obj.source_radio_id == f["src"], "%s: %s decoder: source id equals the 24-bit value the frame encodes" % (tag, name))
        hx.prove(obj.destination_radio_id == f["dst"], "%s: %s decoder: destination id equals the 24-bit value the frame encodes" % (tag, name))
        hx.prove(obj.color_code == f["cc"], "%s: %s decoder: colour code equals the 4-bit value the frame encodes" % (tag, name))
        hx.prove(obj.sequence_number == f["seq"], "%s: %s decoder: sequence number" % (tag, name))
        hx.prove(AND(obj.timeslot.value == ts, obj.slot_type.value == slot, obj.call_type.value == call, obj.packet_type.value == pkt), "%s: %s decoder: type fields" % (tag, name))
        hx.prove(obj.payload == f["burst33"], "%s: %s decoder: payload is the byte-swapped 33-octet burst" % (tag, name))
        st3, out = hx.guard(obj.as_ipsc_bytes)
        hx.prove(st3 == "ok", "%s: %s decoder: re-serialising does not fail (%s)" % (tag, name, out if st3 == "exc" else ""))
        if st3 == "ok":
            hx.prove(out == frame, "%s: %s decoder: serialising the decoded frame reproduces the original 72 bytes" % (tag, name))
    # bursts from either decoder
    stb1, b1 = hx.guard(Burst.from_hytera_ipsc, frame)
    stb2, b2 = hx.guard(lambda: Burst.from_hytera_ipsc(kaitai_parse(hx, frame)))
    hx.prove(stb1 == stb2, "%s: both routes agree on whether the payload parses" % tag)
    if stb1 == "exc" and stb2 == "exc":
        hx.prove(type(b1) is type(b2), "%s: both routes fail the same way on a payload that does not parse as the indicated kind" % tag)
        hx.cover("payload-does-not-parse")
        return
    if stb1 == "ok" and stb2 == "ok":
        hx.prove(type(b1) is type(b2), "%s: same burst class from either decoder" % tag)
        hx.prove(b1.full_bits == b2.full_bits, "%s: same payload bits" % tag)
        hx.prove(AND(b1.timeslot == b2.timeslot, b1.timeslot == (1 if ts == Timeslot.Timeslot_1.value else 2)), "%s: timeslot" % tag)
        hx.prove(AND(b1.sequence_no == f["seq"], b2.sequence_no == f["seq"]), "%s: sequence number" % tag)
        hx.prove(AND(b1.source_radio_id == f["src"], b2.source_radio_id == f["src"]), "%s: burst source id" % tag)
        hx.prove(AND(b1._target_radio_id == f["dst"], b2._target_radio_id == f["dst"]), "%s: burst destination id" % tag)
        hx.prove(AND(b1.hytera_ipsc.color_code == f["cc"], b2.hytera_ipsc.color_code == f["cc"]), "%s: colour code" % tag)
        # "for every frame": also for a frame that was decoded before.  The receive pipeline renumbers the bursts it handles
        # (Timeslot.process_burst -> set_sequence_no / set_stream_no); decoding the same 72 bytes again must not be affected by that.
        b1.set_sequence_no((f["seq"] + 1) & 255).set_stream_no(b"\x01\x02\x03\x04")
        stb3, b3 = hx.guard(Burst.from_hytera_ipsc, frame)
        hx.prove(stb3 == "ok", "%s: decoding the same frame a second time does not fail" % tag)
        if stb3 == "ok":
            hx.prove(b3 is not b1, "%s: every decode returns a fresh burst object" % tag)
            hx.prove(AND(b3.sequence_no == f["seq"], b3.full_bits == b2.full_bits, b3.source_radio_id == f["src"]),
                     "%s: a second decode of the same bytes (after the first burst was renumbered by the receive pipeline) still gives the frame's sequence number, bits and ids" % tag)
    hx.cover("frame")


def cases(tier, seed):
    pairs = [("VoiceOrDataSync", FrameType.Sync.value), ("Wakeup", FrameType.Data.value), ("VoiceFrameA", FrameType.Voice.value), ("VoiceFrameC", FrameType.Voice.value)]
    if tier == "thorough":
        pairs = [(s.name, FrameType.Voice.value if SlotType.is_vocoder(s) else FrameType.Data.value) for s in SlotType if s.name not in ("Undefined", "CSBK", "DataHeader", "Rate12Data", "Rate34Data", "TerminatorWithLC", "VoiceLCHeader", "PrivacyIndicator")]
        pairs.append(("VoiceOrDataSync", FrameType.Sync.value))
    out = []
    for sname, ft in pairs:
        out.append(Case("frame-%s%s" % (sname, "-sync" if ft == FrameType.Sync.value else ""), "h_frame", dict(slot=getattr(SlotType, sname).value, frame_type=ft), covers=["frame"], budget_s=900, opts=dict(max_paths=600, max_violations=12),
                        bounds="72-octet frame: sequence, colour nibble, ids, reserved, source port and the 33 payload octets symbolic"))
    return out
