"""C19 — codec calls are pure: results do not depend on earlier calls or alter inputs.

2-safety over call histories of length 2 (3 in the thorough tier): for entry points f, g with symbolic arguments A, B the run evaluates
r0 = g(B);  f(A);  r1 = g(B)  and proves r1 == r0 and that the argument buffers of f and g are unchanged (the in-place Hamming repair,
documented to return the repaired buffer, excepted).  Entry points: CRC8/9/16/32 and BitCrcCalculator (both modes), Hamming / Golay /
QR / BPTC / VBPTC / trellis / RS, PDU from_bits / as_bits, Burst (incl. default-constructed), Hytera HDAP / HRNP / HSTRP, Motorola MBXML /
TMS / ARS.
"""
import copy
import enum
from bitarray import bitarray
from vf.api import Case, T, AND, OR, NOT, IMPLIES, IFF, EQ
from props.pdu_common import feq, public_fields
from okdmr.dmrlib.etsi.crc.crc import BitCrcCalculator, Crc16, Crc9
from okdmr.dmrlib.etsi.crc.crc8 import CRC8
from okdmr.dmrlib.etsi.crc.crc9 import CRC9
from okdmr.dmrlib.etsi.crc.crc16 import CRC16
from okdmr.dmrlib.etsi.crc.crc32 import CRC32
from okdmr.dmrlib.etsi.layer2.elements.crc_masks import CrcMasks
from okdmr.dmrlib.etsi.fec.hamming_15_11_3 import Hamming15113
from okdmr.dmrlib.etsi.fec.hamming_16_11_4 import Hamming16114
from okdmr.dmrlib.etsi.fec.golay_20_8_7 import Golay2087
from okdmr.dmrlib.etsi.fec.quadratic_residue_16_7_6 import QuadraticResidue1676
from okdmr.dmrlib.etsi.fec.bptc_196_96 import BPTC19696
from okdmr.dmrlib.etsi.fec.vbptc_128_72 import VBPTC12873
from okdmr.dmrlib.etsi.fec.vbptc_68_28 import VBPTC6828
from okdmr.dmrlib.etsi.fec.vbptc_32_11 import VBPTC3211
from okdmr.dmrlib.etsi.fec.reed_solomon_12_9_4 import ReedSolomon1294
from okdmr.dmrlib.etsi.layer2.burst import Burst
from okdmr.dmrlib.etsi.layer2.elements.burst_types import BurstTypes
from okdmr.dmrlib.etsi.layer2.pdu.csbk import CSBK
from okdmr.dmrlib.etsi.layer2.pdu.data_header import DataHeader
from okdmr.dmrlib.etsi.layer2.pdu.full_link_control import FullLinkControl
from okdmr.dmrlib.etsi.layer2.pdu.short_link_control import ShortLinkControl
from okdmr.dmrlib.etsi.layer2.pdu.pi_header import PIHeader
from okdmr.dmrlib.etsi.layer2.pdu.rate12_data import Rate12Data
from okdmr.dmrlib.etsi.layer2.pdu.slot_type import SlotType
from okdmr.dmrlib.etsi.layer2.pdu.embedded_signalling import EmbeddedSignalling
from okdmr.dmrlib.hytera.pdu.hdap import HDAP
from okdmr.dmrlib.hytera.pdu.hrnp import HRNP
from okdmr.dmrlib.hytera.pdu.hstrp import HSTRP
from okdmr.dmrlib.motorola.mbxml import MBXML
from okdmr.dmrlib.motorola.text_messaging_service import TextMessagingService
from okdmr.dmrlib.motorola.automatic_registration_service import AutomaticRegistrationService

EXPLANATION = ("C19: both calls' arguments are symbolic, so 'r1 == r0' is decided for every pair of argument values at once; a stale cache, a shared register, a mutable "
               "default argument or an in-place change of an argument shows as a model (A, B).")
BOUNDS = {"quick": "histories g, f, g for every ordered pair (f, g) of entry points inside each family (CRC, FEC, PDU, burst, Hytera, Motorola) and for every g against the burst and CRC-CCITT entry points; "
                   "argument sizes: one representative size per entry point", "thorough": "all ordered pairs of the 40 entry points; histories g, f, f', g inside the families"}
OUTSIDE = "histories longer than 3; comparison against a freshly started interpreter (the design's freshness clause was not built: state isolation between explored paths restores the import-time state instead); the asyncio handlers (stateful by design)"
ASSUMPTIONS = ["arguments are regenerated per call from the same symbolic variables, so an entry point that damages its argument is seen through the unchanged-buffer obligation, not masked by it"]


def _bits(n):
    return lambda hx, t: (hx.ba(n, t),)


def _bytes(n):
    return lambda hx, t: (hx.bytes(n, t),)


def _hdap_rrs(hx, t):
    return (bytes([0x11, 0x00, 0x03, 0x00, 0x04]) + hx.bytes(4, t) + bytes([hx.int(8, t + "c"), 3]),)


def _hrnp(hx, t):
    return (bytes([0x7E, 0x04, hx.int(8, t + "b"), 0xFE]) + hx.bytes(2, t) + hx.bytes(2, t + "p") + bytes([0, 12]) + hx.bytes(2, t + "k"),)


def _hstrp(hx, t):
    return (b"2B" + bytes([0, hx.int(6, t + "t")]) + hx.bytes(2, t),)


def _mbxml(hx, t):
    return (bytes([0x05, 6, 0x22, 3]) + hx.bytes(3, t) + bytes([0x33]),)


def _tms(hx, t):
    return (bytes([0, 6, 0xA0, 0, 0x80 | hx.int(5, t + "s"), 0x04]) + hx.bytes(2, t),)


def _ars(hx, t):
    return (bytes([0, 2, 0xBF, hx.int(7, t + "r") | 1]),)


ENTRY = {
    # family CRC
    "CRC8.calculate": ("crc", CRC8.calculate, _bits(28)),
    "CRC16.calculate": ("crc", lambda d: CRC16.calculate(d, CrcMasks.CSBK), _bytes(10)),
    "CRC16.check": ("crc", lambda d: CRC16.check(d, 0x1234, CrcMasks.DataHeader), _bytes(10)),
    "CRC32.calculate": ("crc", CRC32.calculate, _bytes(8)),
    "CRC9.calculate_from_parts": ("crc", lambda d: CRC9.calculate_from_parts(d, 3, CrcMasks.Rate12DataContinuation), _bytes(10)),
    "BitCrc16.bitwise": ("crc", lambda d: BitCrcCalculator(Crc16.ETSI_DMR, table_based=False).calculate_checksum(d), _bits(24)),
    "BitCrc9.table-partial": ("crc", lambda d: BitCrcCalculator(Crc9.ETSI_DMR, table_based=True).calculate_checksum(d), _bits(23)),
    # family FEC
    "Hamming15113.generate": ("fec", lambda m: Hamming15113.generate(m), _bits(11)),
    "Hamming15113.check": ("fec", lambda w: Hamming15113.check(w), _bits(15)),
    "Hamming16114.generate": ("fec", lambda m: Hamming16114.generate(m), _bits(11)),
    "Golay2087.generate": ("fec", Golay2087.generate, _bits(8)),
    "Golay2087.check": ("fec", Golay2087.check, _bits(20)),
    "QR1676.generate": ("fec", QuadraticResidue1676.generate, _bits(7)),
    "BPTC19696.encode": ("fec", BPTC19696.encode, _bits(96)),
    "BPTC19696.decode": ("fec", lambda c: BPTC19696.deinterleave_data_bits(BPTC19696.encode(c), True), _bits(96)),
    "VBPTC12873.encode": ("fec", VBPTC12873.encode, _bits(72)),
    "VBPTC6828.encode": ("fec", VBPTC6828.encode, _bits(28)),
    "VBPTC3211.encode": ("fec", VBPTC3211.encode, _bits(11)),
    "RS1294.generate": ("fec", ReedSolomon1294.generate, _bytes(9)),
    # family PDU
    "SlotType.from_bits": ("pdu", SlotType.from_bits, _bits(20)),
    "EmbeddedSignalling.from_bits": ("pdu", EmbeddedSignalling.from_bits, _bits(16)),
    "CSBK.from_bits": ("pdu", lambda b: CSBK.from_bits(bitarray("10111101") + bitarray("00000000") + b), lambda hx, t: (hx.ba(80, t),)),
    "DataHeader.from_bits": ("pdu", lambda b: DataHeader.from_bits(bitarray("00000010") + bitarray("1010") + b), lambda hx, t: (hx.ba(84, t),)),
    "FullLC.from_bits": ("pdu", lambda b: FullLinkControl.from_bits(bitarray("00000000") + bitarray("00000000") + b), lambda hx, t: (hx.ba(80, t),)),
    "PIHeader.from_bits": ("pdu", PIHeader.from_bits, _bits(96)),
    "ShortLC.from_bits": ("pdu", lambda b: ShortLinkControl.from_bits(bitarray("0000") + b), lambda hx, t: (hx.ba(32, t),)),
    "Rate12Data.from_bits": ("pdu", Rate12Data.from_bits, _bits(96)),
    # family burst
    "Burst()": ("burst", lambda: Burst(burst_type=BurstTypes.DataAndControl), lambda hx, t: ()),
    "Burst.from_bits.voice": ("burst", lambda v: Burst.from_bits(v[:108] + bitarray("0" * 48) + v[108:], BurstTypes.Vocoder), _bits(216)),
    # family Hytera
    "HDAP.from_bytes.rrs": ("hytera", HDAP.from_bytes, _hdap_rrs),
    "HRNP.from_bytes": ("hytera", HRNP.from_bytes, _hrnp),
    "HSTRP.from_bytes": ("hytera", HSTRP.from_bytes, _hstrp),
    # family Motorola
    "MBXML.from_bytes": ("motorola", MBXML.from_bytes, _mbxml),
    "MBXML.write_uintvar": ("motorola", MBXML.write_uintvar, lambda hx, t: (hx.int(10, t),)),
    "TMS.from_bytes": ("motorola", TextMessagingService.from_bytes, _tms),
    "ARS.from_bytes": ("motorola", AutomaticRegistrationService.from_bytes, _ars),
}


def snapshot_args(args):
    out = []
    for a in args:
        if isinstance(a, bitarray):
            out.append(a.copy())
        elif isinstance(a, bytearray):
            out.append(bytes(a))
        else:
            out.append(a)
    return out


def same_value(a, b, depth=0):
    """result equality -> Bit | 0 | 1 ; objects compare by their serialisation and public fields"""
    import numpy
    if a is None or b is None:
        return 1 if (a is None and b is None) else 0
    if isinstance(a, numpy.ndarray) or isinstance(b, numpy.ndarray):
        la, lb = list(a.tolist()), list(b.tolist())
        return EQ(la, lb) if len(la) == len(lb) else 0
    if isinstance(a, (list, tuple)) and isinstance(b, (list, tuple)):
        if len(a) != len(b):
            return 0
        return AND(*[same_value(x, y, depth + 1) for x, y in zip(a, b)]) if a else 1
    if isinstance(a, bitarray) and isinstance(b, bitarray):
        return T(a == b) if len(a) == len(b) else 0
    if isinstance(a, dict) and isinstance(b, dict):
        if depth >= 4:
            return 1 if len(a) == len(b) else 0          # configuration tables hanging off a result: same size is all that is compared
        if set(a) != set(b):
            return 0
        return AND(*[same_value(a[k], b[k], depth + 1) for k in a]) if a else 1
    if isinstance(a, enum.Enum) or isinstance(b, enum.Enum):
        return feq(a, b)
    if hasattr(a, "__dict__") and not isinstance(a, type) and depth < 6:
        if type(a) is not type(b):
            return 0
        acc = []
        for k in sorted(vars(a)):
            if k.startswith("_") or k in ("logger", "hytera_ipsc", "elements_config", "attributes_config", "default_constants_table"):
                continue
            acc.append(same_value(getattr(a, k), getattr(b, k, None), depth + 1))
        return AND(*acc) if acc else 1
    r = a == b
    if r is NotImplemented:
        return 0
    return T(r)


def call(hx, name, tag):
    fam, fn, gen = ENTRY[name]
    args = gen(hx, tag)
    keep = snapshot_args(args)
    st, r = hx.guard(fn, *args)
    for x, y in zip(args, keep):
        if isinstance(x, (bitarray, bytearray)):
            hx.prove(x == y if isinstance(x, bitarray) else bytes(x) == y, "%s leaves the buffer passed to it unchanged" % name)
    return st, r


def h_pair(hx, g, f, extra=None):
    s0, r0 = call(hx, g, "B")
    call(hx, f, "A")
    if extra:
        call(hx, extra, "C")
    s1, r1 = call(hx, g, "B")
    what = "%s, then %s%s, then %s again" % (g, f, (" and " + extra) if extra else "", g)
    hx.prove(s0 == s1, "%s: the same arguments succeed / fail the same way" % what)
    if s0 == "ok" and s1 == "ok":
        hx.prove(same_value(r0, r1), "%s: same result for the same arguments" % what)
        if r0 is not None and isinstance(r0, (bitarray, bytearray, list)):
            hx.prove(r0 is not r1 or len(r0) == 0, "%s: results are fresh objects (a caller may modify what it got back)" % what)
    elif s0 == "exc" and s1 == "exc":
        hx.prove(type(r0) is type(r1), "%s: the same arguments fail the same way" % what)
    hx.cover("pair")


def cases(tier, seed):
    names = list(ENTRY)
    pairs = []
    for g in names:
        for f in names:
            same_family = ENTRY[g][0] == ENTRY[f][0]
            if tier == "thorough" or same_family or f in ("Burst()", "CRC16.calculate", "BPTC19696.decode"):
                pairs.append((g, f))
    out = []
    for g, f in pairs:
        out.append(Case("%s--after--%s" % (g, f), "h_pair", dict(g=g, f=f), covers=["pair"], budget_s=600, opts=dict(max_paths=3000, max_violations=6, solver_timeout_ms=60000, tabulate_calls=["ReedSolomon1294.log_multiply"]),
                        bounds="history g=%s, f=%s, g; all arguments symbolic" % (g, f)))
    if tier == "thorough":
        for g in names:
            fam = [n for n in names if ENTRY[n][0] == ENTRY[g][0]]
            for i, f in enumerate(fam):
                out.append(Case("%s--after--%s+%s" % (g, f, fam[(i + 1) % len(fam)]), "h_pair", dict(g=g, f=f, extra=fam[(i + 1) % len(fam)]), covers=["pair"], budget_s=600,
                                opts=dict(max_paths=3000, max_violations=6, tabulate_calls=["ReedSolomon1294.log_multiply"]), bounds="history g, f, f', g inside family %s" % ENTRY[g][0]))
    return out
