"""C19 — codec calls are pure: results do not depend on earlier calls or alter inputs.

2-safety over call histories of length 2 (3 in the thorough tier): for entry points f, g with symbolic arguments A, B the run evaluates
r0 = g(B);  f(A);  r1 = g(B)  and proves r1 == r0 and that the argument buffers of f and g are unchanged (the in-place Hamming repair,
documented to return the repaired buffer, excepted).  Entry points: CRC8/9/16/32 and BitCrcCalculator (both modes), Hamming / Golay /
QR / BPTC / VBPTC / trellis / RS, PDU from_bits / as_bits, Burst (incl. default-constructed), Hytera HDAP / HRNP / HSTRP, Motorola MBXML /
TMS / ARS.
"""
import copy
import enum
from bitarray import bitarray
from vf.api import Case, T, AND, OR, NOT, IMPLIES, IFF, EQ
from props.pdu_common import feq, public_fields
import datetime as _dt
import inspect
import sys
import time as _time
from okdmr.dmrlib.etsi.crc.crc import BitCrcCalculator, BitCrcConfiguration, Crc16, Crc9
from okdmr.dmrlib.utils.bits_bytes import bytes_to_bits, byteswap_bytes
from okdmr.dmrlib.etsi.layer2.elements.sync_patterns import SyncPatterns
from okdmr.dmrlib.etsi.layer2.elements.data_types import DataTypes
from okdmr.dmrlib.etsi.layer2.elements.csbk_opcodes import CsbkOpcodes
from okdmr.dmrlib.etsi.layer2.elements.data_packet_formats import DataPacketFormats
from okdmr.dmrlib.etsi.layer2.elements.sap_identifier import SAPIdentifier
from okdmr.dmrlib.etsi.layer2.elements.full_message_flag import FullMessageFlag
from okdmr.dmrlib.etsi.layer2.pdu.rate34_data import Rate34Data, Rate34DataTypes
from okdmr.dmrlib.etsi.layer2.pdu.rate1_data import Rate1Data, Rate1DataTypes
from okdmr.dmrlib.etsi.layer3.pdu.udp_ipv4_compressed_header import UDPIPv4CompressedHeader
from okdmr.dmrlib.etsi.layer3.elements.service_options import ServiceOptions
from okdmr.dmrlib.hytera.pdu.radio_control_protocol import RadioControlProtocol, RCPOpcode
from okdmr.dmrlib.etsi.crc.crc8 import CRC8
from okdmr.dmrlib.etsi.crc.crc9 import CRC9
from okdmr.dmrlib.etsi.crc.crc16 import CRC16
from okdmr.dmrlib.etsi.crc.crc32 import CRC32
from okdmr.dmrlib.etsi.layer2.elements.crc_masks import CrcMasks
from okdmr.dmrlib.etsi.fec.hamming_15_11_3 import Hamming15113
from okdmr.dmrlib.etsi.fec.hamming_16_11_4 import Hamming16114
from okdmr.dmrlib.etsi.fec.golay_20_8_7 import Golay2087
from okdmr.dmrlib.etsi.fec.quadratic_residue_16_7_6 import QuadraticResidue1676
from okdmr.dmrlib.etsi.fec.bptc_196_96 import BPTC19696
from okdmr.dmrlib.etsi.fec.vbptc_128_72 import VBPTC12873
from okdmr.dmrlib.etsi.fec.vbptc_68_28 import VBPTC6828
from okdmr.dmrlib.etsi.fec.vbptc_32_11 import VBPTC3211
from okdmr.dmrlib.etsi.fec.reed_solomon_12_9_4 import ReedSolomon1294
from okdmr.dmrlib.etsi.layer2.burst import Burst
from okdmr.dmrlib.etsi.layer2.elements.burst_types import BurstTypes
from okdmr.dmrlib.etsi.layer2.pdu.csbk import CSBK
from okdmr.dmrlib.etsi.layer2.pdu.data_header import DataHeader
from okdmr.dmrlib.etsi.layer2.pdu.full_link_control import FullLinkControl
from okdmr.dmrlib.etsi.layer2.pdu.short_link_control import ShortLinkControl
from okdmr.dmrlib.etsi.layer2.pdu.pi_header import PIHeader
from okdmr.dmrlib.etsi.layer2.pdu.rate12_data import Rate12Data, Rate12DataTypes
from okdmr.dmrlib.etsi.layer2.pdu.slot_type import SlotType
from okdmr.dmrlib.etsi.layer2.pdu.embedded_signalling import EmbeddedSignalling
from okdmr.dmrlib.hytera.pdu.hdap import HDAP
from okdmr.dmrlib.hytera.pdu.hrnp import HRNP
from okdmr.dmrlib.hytera.pdu.hstrp import HSTRP
from okdmr.dmrlib.motorola.mbxml import MBXML
from okdmr.dmrlib.motorola.text_messaging_service import TextMessagingService
from okdmr.dmrlib.motorola.automatic_registration_service import AutomaticRegistrationService

EXPLANATION = ("C19: both calls' arguments are symbolic, so 'r1 == r0' is decided for every pair of argument values at once; a stale cache, a shared register, a mutable "
               "default argument or an in-place change of an argument shows as a model (A, B).")
BOUNDS = {"quick": "g(B) in the import-time state compared with g(B) after f(A) [and f'(C)] started from the import-time state, for every ordered pair (f, g) of entry points inside each family (CRC, FEC, PDU, burst, Hytera, Motorola) and for every g against the burst and CRC-CCITT entry points; "
                   "argument sizes: one representative size per entry point", "thorough": "all ordered pairs of the 40 entry points; histories g, f, f', g inside the families"}
OUTSIDE = ("histories longer than 3; 'fresh interpreter state' is the import-time state of the library's module- and class-level containers / plain attributes, functools caches and "
           "mutable default arguments as restored by vf/state.py (state kept elsewhere, e.g. in closures or C-level objects, is outside); the asyncio handlers (stateful by design)")
ASSUMPTIONS = ["arguments are regenerated per call from the same symbolic variables, so an entry point that damages its argument is seen through the unchanged-buffer obligation, not masked by it"]


def _bits(n):
    return lambda hx, t: (hx.ba(n, t),)


def _bytes(n):
    return lambda hx, t: (hx.bytes(n, t),)


def _hdap_rrs(hx, t):
    return (bytes([0x11, 0x00, 0x03, 0x00, 0x04]) + hx.bytes(4, t) + bytes([hx.int(8, t + "c"), 3]),)


def _hrnp(hx, t):
    return (bytes([0x7E, 0x04, hx.int(8, t + "b"), 0xFE]) + hx.bytes(2, t) + hx.bytes(2, t + "p") + bytes([0, 12]) + hx.bytes(2, t + "k"),)


def _hstrp(hx, t):
    return (b"2B" + bytes([0, hx.int(6, t + "t")]) + hx.bytes(2, t),)


def _mbxml(hx, t):
    return (bytes([0x05, 6, 0x22, 3]) + hx.bytes(3, t) + bytes([0x33]),)


def _tms(hx, t):
    return (bytes([0, 6, 0xA0, 0, 0x80 | hx.int(5, t + "s"), 0x04]) + hx.bytes(2, t),)


def _ars(hx, t):
    return (bytes([0, 2, 0xBF, hx.int(7, t + "r") | 1]),)


def _ipsc(hx, t):
    from props import C13
    frame, _f = C13.build_frame(hx, C13.SlotType.VoiceFrameA.value, C13.Timeslot.Timeslot_1.value, list(C13.CallType)[0].value, list(C13.PacketType)[0].value,
                                C13.FrameType.Voice.value, pfx=t + ".")
    return (frame,)


def _bptc_rx(hx, t):
    """a received BPTC word: a codeword of a symbolic message with up to two inverted bits (concrete positions, symbolic presence)"""
    w = BPTC19696.encode(hx.ba(96, t))
    w[7] ^= hx.bit(t + ".e1")
    w[100] ^= hx.bit(t + ".e2")
    return (w,)


def _data_burst_rx(hx, t):
    b = Burst(burst_type=BurstTypes.DataAndControl)
    b.has_emb = False
    b.sync_or_embedded_signalling = SyncPatterns.BsSourcedData
    b.slot_type = SlotType(colour_code=hx.int(4, t + ".cc"), data_type=DataTypes.CSBK)
    b.data = CSBK(csbko=CsbkOpcodes.PreambleCSBK, source_address=hx.int(24, t + ".s"), target_address=hx.int(24, t + ".t"), blocks_to_follow=hx.int(8, t + ".n"),
                  target_address_is_individual=True, last_block=True)
    bits = b.as_bits()
    bits[40] ^= hx.bit(t + ".e")
    return (bits,)


def _default_data_header(llid):
    return DataHeader(dpf=DataPacketFormats.DataPacketUnconfirmed, sap_identifier=SAPIdentifier.ShortData, llid_destination=llid, llid_source=1, blocks_to_follow=1, pad_octet_count=0,
                      full_message_flag=FullMessageFlag.FirstTryToCompletePacket).as_bits()


def _default_rcp():
    return RadioControlProtocol(opcode=RCPOpcode.StatusChangeNotificationRequest).as_bytes()


def _lrrp_with(v):
    from okdmr.dmrlib.motorola.lrrp import LRRP
    from okdmr.dmrlib.motorola.mbxml import MBXMLDocumentIdentifier
    doc = LRRP(document_id=MBXMLDocumentIdentifier.LRRP_ImmediateLocationRequest_NCDT)
    doc.parts.append(doc.get_token(0x22, v, {}, True))
    return doc


REV_IN = BitCrcConfiguration(width_bits=16, polynomial=0x1021, init_value=0, final_xor_value=0, reverse_input_bytes=True, reverse_output_bytes=False)
REV_IO = BitCrcConfiguration(width_bits=16, polynomial=0x1021, init_value=0xFFFF, final_xor_value=0, reverse_input_bytes=True, reverse_output_bytes=True)

ENTRY = {
    # family CRC
    "CRC8.calculate": ("crc", CRC8.calculate, _bits(28)),
    "CRC16.calculate": ("crc", lambda d: CRC16.calculate(d, CrcMasks.CSBK), _bytes(10)),
    "CRC16.check": ("crc", lambda d: CRC16.check(d, 0x1234, CrcMasks.DataHeader), _bytes(10)),
    "CRC32.calculate": ("crc", CRC32.calculate, _bytes(8)),
    "CRC9.calculate_from_parts": ("crc", lambda d: CRC9.calculate_from_parts(d, 3, CrcMasks.Rate12DataContinuation), _bytes(10)),
    "BitCrc16.bitwise": ("crc", lambda d: BitCrcCalculator(Crc16.ETSI_DMR, table_based=False).calculate_checksum(d), _bits(24)),
    "BitCrc9.table-partial": ("crc", lambda d: BitCrcCalculator(Crc9.ETSI_DMR, table_based=True).calculate_checksum(d), _bits(23)),
    "CRC9.calculate_from_parts.with-crc32": ("crc", lambda d, c: CRC9.calculate_from_parts(d, 3, CrcMasks.Rate12DataContinuation, c), lambda hx, t: (hx.bytes(6, t), hx.bytes(4, t + "c"))),
    "CRC9.check.with-crc32": ("crc", lambda d, c, v: CRC9.check(d, 5, v, CrcMasks.Rate34DataContinuation, c), lambda hx, t: (hx.bytes(12, t), hx.bytes(4, t + "c"), hx.int(9, t + "v"))),
    "CRC8.check": ("crc", lambda d: CRC8.check(d, 0x5A), _bits(28)),
    "CRC32.check": ("crc", lambda d: CRC32.check(d, 0x12345678), _bytes(8)),
    "CRC9.calculate": ("crc", lambda d: CRC9.calculate(d, CrcMasks.Rate12DataContinuation), _bits(87)),
    "BitCrc16.reverse-input-bytes": ("crc", lambda d: BitCrcCalculator(REV_IN).calculate_checksum(d), _bits(24)),
    "BitCrc16.reverse-io-bytes.table": ("crc", lambda d: BitCrcCalculator(REV_IO, table_based=True).calculate_checksum(d), _bits(24)),
    "bytes_to_bits": ("crc", bytes_to_bits, _bytes(3)),
    "byteswap_bytes": ("crc", byteswap_bytes, _bytes(4)),
    # family FEC
    "BPTC19696.decode.received-word-with-errors": ("fec", lambda w: BPTC19696.deinterleave_data_bits(w, True), _bptc_rx),
    "BPTC19696.deinterleave_all_bits": ("fec", BPTC19696.deinterleave_all_bits, _bits(196)),
    "Hamming16114.check": ("fec", lambda w: Hamming16114.check(w), _bits(16)),
    "QR1676.check": ("fec", QuadraticResidue1676.check, _bits(16)),
    "VBPTC12873.extract": ("fec", VBPTC12873.deinterleave_data_bits, _bits(128)),
    "VBPTC6828.extract": ("fec", VBPTC6828.deinterleave_data_bits, _bits(68)),
    "VBPTC3211.extract": ("fec", VBPTC3211.deinterleave_data_bits, _bits(32)),
    "RS1294.check": ("fec", lambda w: ReedSolomon1294.check(w, b"\x96\x96\x96"), _bytes(12)),
    "Hamming15113.generate": ("fec", lambda m: Hamming15113.generate(m), _bits(11)),
    "Hamming15113.check": ("fec", lambda w: Hamming15113.check(w), _bits(15)),
    "Hamming16114.generate": ("fec", lambda m: Hamming16114.generate(m), _bits(11)),
    "Golay2087.generate": ("fec", Golay2087.generate, _bits(8)),
    "Golay2087.check": ("fec", Golay2087.check, _bits(20)),
    "QR1676.generate": ("fec", QuadraticResidue1676.generate, _bits(7)),
    "BPTC19696.encode": ("fec", BPTC19696.encode, _bits(96)),
    "BPTC19696.decode": ("fec", lambda c: BPTC19696.deinterleave_data_bits(BPTC19696.encode(c), True), _bits(96)),
    "VBPTC12873.encode": ("fec", VBPTC12873.encode, _bits(72)),
    "VBPTC6828.encode": ("fec", VBPTC6828.encode, _bits(28)),
    "VBPTC3211.encode": ("fec", VBPTC3211.encode, _bits(11)),
    "RS1294.generate": ("fec", ReedSolomon1294.generate, _bytes(9)),
    # family PDU
    "SlotType.from_bits": ("pdu", SlotType.from_bits, _bits(20)),
    "EmbeddedSignalling.from_bits": ("pdu", EmbeddedSignalling.from_bits, _bits(16)),
    "CSBK.from_bits": ("pdu", lambda b: CSBK.from_bits(bitarray("10111101") + bitarray("00000000") + b), lambda hx, t: (hx.ba(80, t),)),
    "DataHeader.from_bits": ("pdu", lambda b: DataHeader.from_bits(bitarray("00000010") + bitarray("1010") + b), lambda hx, t: (hx.ba(84, t),)),
    "FullLC.from_bits": ("pdu", lambda b: FullLinkControl.from_bits(bitarray("00000000") + bitarray("00000000") + b), lambda hx, t: (hx.ba(80, t),)),
    "PIHeader.from_bits": ("pdu", PIHeader.from_bits, _bits(96)),
    "ShortLC.from_bits": ("pdu", lambda b: ShortLinkControl.from_bits(bitarray("0000") + b), lambda hx, t: (hx.ba(32, t),)),
    "Rate12Data.from_bits": ("pdu", Rate12Data.from_bits, _bits(96)),
    "CSBK.decode-encode": ("pdu", lambda b: CSBK.from_bits(bitarray("10111101") + bitarray("00000000") + b).as_bits(), lambda hx, t: (hx.ba(80, t),)),
    "DataHeader.decode-encode": ("pdu", lambda b: DataHeader.from_bits(bitarray("00000010") + bitarray("1010") + b).as_bits(), lambda hx, t: (hx.ba(84, t),)),
    "FullLC77.from_bits": ("pdu", lambda b: FullLinkControl.from_bits(bitarray("00000000") + bitarray("00000000") + b), lambda hx, t: (hx.ba(61, t),)),
    "Rate34Data.from_bits": ("pdu", Rate34Data.from_bits, _bits(144)),
    "Rate12Data.confirmed-last-block": ("pdu", lambda b: Rate12Data.from_bits_typed(b, Rate12DataTypes.ConfirmedLastBlock), _bits(96)),
    "Rate34Data.confirmed-last-block": ("pdu", lambda b: Rate34Data.from_bits_typed(b, Rate34DataTypes.ConfirmedLastBlock), _bits(144)),
    "Rate1Data.confirmed-last-block": ("pdu", lambda b: Rate1Data.from_bits_typed(b, Rate1DataTypes.ConfirmedLastBlock), _bits(192)),
    "Rate1Data.from_bits": ("pdu", Rate1Data.from_bits, _bits(192)),
    "UDPIPv4.from_bits": ("pdu", UDPIPv4CompressedHeader.from_bits, lambda hx, t: (hx.ba(16, t + "i") + bitarray("00010010") + hx.ba(32, t),)),
    "ServiceOptions(defaults).as_bits": ("pdu", lambda: ServiceOptions().as_bits(), lambda hx, t: ()),
    "DataHeader(defaults).as_bits": ("pdu", _default_data_header, lambda hx, t: (hx.int(24, t),)),
    "RCP(defaults).as_bytes": ("pdu", _default_rcp, lambda hx, t: ()),
    # family burst
    "Burst.from_bits.data-with-error": ("burst", lambda b: Burst.from_bits(b, BurstTypes.DataAndControl), _data_burst_rx),
    "Burst.from_bytes.voice": ("burst", lambda v: Burst.from_bytes(v, BurstTypes.Vocoder), lambda hx, t: (bytes(hx.bytes(13, t)) + bytes(7) + bytes(hx.bytes(13, t + "b")),)),
    "Burst()": ("burst", lambda: Burst(burst_type=BurstTypes.DataAndControl), lambda hx, t: ()),
    "Burst.from_bits.voice": ("burst", lambda v: Burst.from_bits(v[:108] + bitarray("0" * 48) + v[108:], BurstTypes.Vocoder), _bits(216)),
    # family Hytera (frames; the application PDUs of every implemented (service, opcode) are added below from props/C12.py)
    "HDAP.from_bytes.rrs": ("hytera", HDAP.from_bytes, _hdap_rrs),
    "HRNP.from_bytes": ("hytera", HRNP.from_bytes, _hrnp),
    "HSTRP.from_bytes": ("hytera", HSTRP.from_bytes, _hstrp),
    "IPSC.burst-from-raw-frame": ("hytera", Burst.from_hytera_ipsc, _ipsc),
    # family Motorola
    "MBXML.from_bytes": ("motorola", MBXML.from_bytes, _mbxml),
    "MBXML.write_uintvar": ("motorola", MBXML.write_uintvar, lambda hx, t: (hx.int(10, t),)),
    "MBXML.from_bytes.report": ("motorola", MBXML.from_bytes, lambda hx, t: (bytes([0x07, 6, 0x22, 3]) + hx.bytes(3, t) + bytes([0x37]),)),
    "MBXML.decode-encode": ("motorola", lambda d: [MBXML.as_bytes(x) for x in MBXML.from_bytes(d)], _mbxml),
    "LRRP.get_token": ("motorola", lambda v: MBXML.as_bytes(_lrrp_with(v)), lambda hx, t: (hx.bytes(2, t),)),
    "TMS.from_bytes": ("motorola", TextMessagingService.from_bytes, _tms),
    "ARS.from_bytes": ("motorola", AutomaticRegistrationService.from_bytes, _ars),
}


# ------------------------------------------------------------------------------------------------------------------------------
# application PDUs of every implemented Hytera (service, opcode): frames as in props/C12.py (payload octets, reliable flag, checksum symbolic)
def _add_hdap_entries():
    from props import C12
    from okdmr.dmrlib.hytera.pdu.hdap import HyteraServiceType
    specs = dict(C12.SPECS["quick"])
    S = lambda n: [None] * n
    for nm in list(specs):
        if nm.startswith(("RCP-StatusChangeNotificationRequest-5", "RCP-BroadcastStatusConfigurationRequest-5")):
            # two symbolic dict entries: 1,200 paths per parse; replaced by the one-entry variants below
            del specs[nm]
    lp = [n for n in specs if n.startswith("LP-StandardReport-")]
    for nm in lp[1:]:
        del specs[nm]
    for nm, tpl in (("StatusChangeNotificationRequest", [1] + S(2)), ("BroadcastStatusConfigurationRequest", [1] + S(2))):
        if hasattr(RCPOpcode, nm):
            v = getattr(RCPOpcode, nm).value
            specs["RCP-%s-3" % nm] = ("RCP-%s-3" % nm, RadioControlProtocol, HyteraServiceType.RCP.value, v & 0xFF, v >> 8, "little", tpl)
    for nm, spec in specs.items():
        fam = "hytera-" + nm.split("-")[0]
        ENTRY["HDAP:" + nm] = (fam, HDAP.from_bytes, (lambda spec: lambda hx, t: (C12.build_frame(hx, spec, t + "."),))(spec))


_add_hdap_entries()


# ------------------------------------------------------------------------------------------------------------------------------
# wall clock and randomness: every library module that binds date / datetime / time() / the datetime or time module gets a fake whose
# "now" is a fresh symbolic instant per call, so that  r1 == r0  also says "the result does not depend on the clock"
class _DateMeta(type):
    def __instancecheck__(cls, o):
        return isinstance(o, _dt.date)


class _DatetimeMeta(type):
    def __instancecheck__(cls, o):
        return isinstance(o, _dt.datetime)


NOW = {}


def _unmodelled(what):
    from sxl.explore import Inconclusive
    raise Inconclusive("symbolic clock: %s is not modelled" % what)


class FakeDate(_dt.date, metaclass=_DateMeta):
    @classmethod
    def today(cls):
        return NOW["date"]


class FakeDatetime(_dt.datetime, metaclass=_DatetimeMeta):
    @classmethod
    def now(cls, tz=None):
        return NOW["datetime"]

    @classmethod
    def utcnow(cls):
        return NOW["datetime"]

    @classmethod
    def today(cls):
        return NOW["datetime"]


def _lex_lt(a, b):
    """a < b lexicographically for equal-length tuples of (symbolic) ints"""
    r = 0
    for x, y in reversed(list(zip(a, b))):
        r = OR(T(x < y), AND(T(x == y), r))
    return r


class _SymFields:
    """mixin: calendar fields come from self._f (symbolic in the symbolic run); everything that would need the C-level fields is refused"""
    def _t(self):
        return tuple(self._f)

    def _o(self, o):
        if isinstance(o, _SymFields):
            return o._t()
        if isinstance(o, _dt.datetime):
            return (o.year, o.month, o.day, o.hour, o.minute, o.second)[:len(self._f)]
        if isinstance(o, _dt.date):
            return (o.year, o.month, o.day)[:len(self._f)]
        return None

    def __eq__(self, o):
        t = self._o(o)
        if t is None or len(t) != len(self._f):
            return False
        return AND(*[T(x == y) for x, y in zip(self._t(), t)])

    def __ne__(self, o):
        return NOT(self.__eq__(o))

    def __lt__(self, o):
        return _lex_lt(self._t(), self._o(o))

    def __gt__(self, o):
        return _lex_lt(self._o(o), self._t())

    def __le__(self, o):
        return NOT(self.__gt__(o))

    def __ge__(self, o):
        return NOT(self.__lt__(o))

    def __hash__(self):
        return 0x434C4B

    def strftime(self, *a):
        _unmodelled("strftime")

    def isoformat(self, *a, **k):
        _unmodelled("isoformat")

    def __format__(self, spec):
        _unmodelled("format")

    def __str__(self):
        _unmodelled("str")

    def __repr__(self):
        return "<symbolic instant>"

    def __sub__(self, o):
        _unmodelled("date arithmetic")

    def __rsub__(self, o):
        _unmodelled("date arithmetic")

    def __add__(self, o):
        _unmodelled("date arithmetic")

    def replace(self, *a, **k):
        _unmodelled("replace")

    def timetuple(self):
        _unmodelled("timetuple")

    def toordinal(self):
        _unmodelled("toordinal")

    def weekday(self):
        _unmodelled("weekday")

    def timestamp(self):
        _unmodelled("timestamp")

    year = property(lambda s: s._f[0])
    month = property(lambda s: s._f[1])
    day = property(lambda s: s._f[2])


class SymDate(_SymFields, FakeDate):
    def __new__(cls, f):
        self = _dt.date.__new__(cls, 2000, 1, 1)
        self._f = tuple(f)
        return self


class SymDatetime(_SymFields, FakeDatetime):
    def __new__(cls, f):
        self = _dt.datetime.__new__(cls, 2000, 1, 1)
        self._f = tuple(f)
        return self

    hour = property(lambda s: s._f[3])
    minute = property(lambda s: s._f[4])
    second = property(lambda s: s._f[5])
    microsecond = property(lambda s: 0)

    def date(self):
        return SymDate(self._f[:3])


def fake_time():
    return NOW["time"]


class _ModProxy:
    def __init__(self, real, **over):
        self.__dict__["_real"] = real
        self.__dict__.update(over)

    def __getattr__(self, n):
        return getattr(self._real, n)


FAKE_DT_MODULE = _ModProxy(_dt, date=FakeDate, datetime=FakeDatetime)
FAKE_TIME_MODULE = _ModProxy(_time, time=fake_time)


def library_modules():
    return [(n, m) for n, m in sorted(sys.modules.items()) if n.startswith("okdmr.dmrlib") and m is not None and ".tests" not in n]


def install_clock():
    undo = []
    for n, mod in library_modules():
        for k, v in list(vars(mod).items()):
            new = None
            if v is _dt.date:
                new = FakeDate
            elif v is _dt.datetime:
                new = FakeDatetime
            elif v is _time.time:
                new = fake_time
            elif v is _dt:
                new = FAKE_DT_MODULE
            elif v is _time:
                new = FAKE_TIME_MODULE
            if new is not None:
                undo.append((mod, k, v))
                setattr(mod, k, new)
    return undo


def uninstall_clock(undo):
    for mod, k, v in undo:
        setattr(mod, k, v)


def set_clock(hx, tag):
    """a fresh arbitrary instant (1970..2097, valid calendar fields); symbolic in the symbolic run, the model's values in the replay"""
    y = 1970 + hx.int(7, tag + ".year")
    mo = 1 + hx.int(4, tag + ".month")
    d = 1 + hx.int(5, tag + ".day")
    h, mi, se = hx.int(5, tag + ".hour"), hx.int(6, tag + ".minute"), hx.int(6, tag + ".second")
    hx.assume(AND(mo <= 12, d <= 28, h <= 23, mi <= 59, se <= 59))
    NOW["time"] = hx.int(31, tag + ".epoch")
    if hx.symbolic:
        NOW["date"] = SymDate((y, mo, d))
        NOW["datetime"] = SymDatetime((y, mo, d, h, mi, se))
    else:
        NOW["date"] = FakeDate(int(y), int(mo), int(d))
        NOW["datetime"] = FakeDatetime(int(y), int(mo), int(d), int(h), int(mi), int(se))


# ------------------------------------------------------------------------------------------------------------------------------
# mutable default arguments of the library (found by introspection of the current source): no call may change them
def mutable_defaults():
    out = []
    seen = set()
    for n, mod in library_modules():
        owners = [(n, mod)] + [(n + "." + c.__name__, c) for c in vars(mod).values() if inspect.isclass(c) and c.__module__ == n]
        for oname, owner in owners:
            for fname, f in list(vars(owner).items()):
                f = getattr(f, "__func__", f)
                if not inspect.isfunction(f) or id(f) in seen:
                    continue
                seen.add(id(f))
                ds = list(f.__defaults__ or ()) + list((f.__kwdefaults__ or {}).values())
                for i, d in enumerate(ds):
                    if isinstance(d, (list, dict, set, bytearray, bitarray)) or (hasattr(d, "__dict__") and not inspect.isclass(d) and not callable(d) and not isinstance(d, enum.Enum) and not inspect.ismodule(d)):
                        out.append(("%s.%s default #%d" % (oname.replace("okdmr.dmrlib.", ""), fname, i), d))
    return out


def freeze(d):
    if isinstance(d, bitarray):
        return d.copy()
    if isinstance(d, dict):
        return dict(d)
    if isinstance(d, (list, set)):
        return list(d)
    if isinstance(d, bytearray):
        return bytes(d)
    if hasattr(d, "as_bytes"):
        st = None
        try:
            return ("bytes", d.as_bytes())
        except Exception:
            pass
    return ("vars", dict(vars(d)))


def defaults_unchanged(hx, snap, after):
    for (name, d), old in snap:
        hx.prove(same_value(freeze(d), old), "%s: the mutable default argument %s still has its import-time value" % (after, name))


def snapshot_args(args):
    out = []
    for a in args:
        if isinstance(a, bitarray):
            out.append(a.copy())
        elif isinstance(a, bytearray):
            out.append(bytes(a))
        else:
            out.append(a)
    return out


def same_value(a, b, depth=0):
    """result equality -> Bit | 0 | 1 ; objects compare by their serialisation and public fields"""
    import numpy
    if a is None or b is None:
        return 1 if (a is None and b is None) else 0
    if isinstance(a, numpy.ndarray) or isinstance(b, numpy.ndarray):
        la, lb = list(a.tolist()), list(b.tolist())
        return EQ(la, lb) if len(la) == len(lb) else 0
    if isinstance(a, (list, tuple)) and isinstance(b, (list, tuple)):
        if len(a) != len(b):
            return 0
        return AND(*[same_value(x, y, depth + 1) for x, y in zip(a, b)]) if a else 1
    if isinstance(a, bitarray) and isinstance(b, bitarray):
        return T(a == b) if len(a) == len(b) else 0
    if isinstance(a, dict) and isinstance(b, dict):
        if depth >= 4:
            return 1 if len(a) == len(b) else 0          # configuration tables hanging off a result: same size is all that is compared
        ka, kb = list(a), list(b)
        if any(type(k).__module__.startswith("sxl") for k in ka + kb):
            # keys that are symbolic (e.g. an enum looked up from a symbolic octet): both runs insert in the same order, compare item by item
            if len(ka) != len(kb):
                return 0
            return AND(*[AND(same_value(x, y, depth + 1), same_value(va, vb, depth + 1)) for (x, va), (y, vb) in zip(list(a.items()), list(b.items()))]) if ka else 1
        if set(ka) != set(kb):
            return 0
        return AND(*[same_value(a[k], b[k], depth + 1) for k in ka]) if ka else 1
    if isinstance(a, enum.Enum) or isinstance(b, enum.Enum):
        return feq(a, b)
    if isinstance(a, (_dt.date, _dt.time, _dt.timedelta, _SymFields)) or isinstance(b, (_dt.date, _dt.time, _dt.timedelta, _SymFields)):
        # calendar values compare by value (instances of the clock stand-ins have an empty __dict__ and would look equal field by field)
        r = a == b
        return 0 if r is NotImplemented else T(r)
    if hasattr(a, "__dict__") and not isinstance(a, type) and depth < 6:
        if type(a) is not type(b):
            return 0
        acc = []
        for k in sorted(vars(a)):
            if k.startswith("_") or k in ("logger", "hytera_ipsc", "elements_config", "attributes_config", "default_constants_table"):
                continue
            acc.append(same_value(getattr(a, k), getattr(b, k, None), depth + 1))
        return AND(*acc) if acc else 1
    r = a == b
    if r is NotImplemented:
        return 0
    return T(r)


def call(hx, name, tag, clock):
    fam, fn, gen = ENTRY[name]
    args = gen(hx, tag)
    keep = snapshot_args(args)
    set_clock(hx, clock)
    st, r = hx.guard(fn, *args)
    for x, y in zip(args, keep):
        if isinstance(x, (bitarray, bytearray)):
            hx.prove(x == y if isinstance(x, bitarray) else bytes(x) == y, "%s leaves the buffer passed to it unchanged" % name)
    return st, r


def h_pair(hx, g, f, extra=None):
    undo = install_clock()
    try:
        pair_body(hx, g, f, extra)
    finally:
        uninstall_clock(undo)


def pair_body(hx, g, f, extra):
    snap = [((n, d), freeze(d)) for n, d in mutable_defaults()]
    s0, r0 = call(hx, g, "B", "clock0")              # reference: g(B) in the state the library has right after import
    defaults_unchanged(hx, snap, "after %s" % g)
    # "the same call in a fresh interpreter state": everything g(B) may have left behind (module / class level containers and attributes,
    # functools caches, mutable default arguments) is put back to its import-time value, so that the second g(B) below is compared with a
    # first call that could not have primed any cache for itself
    from vf import state
    state.process_guard().restore()
    call(hx, f, "A", "clock1")
    defaults_unchanged(hx, snap, "after %s" % f)
    if extra:
        call(hx, extra, "C", "clock2")
    s1, r1 = call(hx, g, "B", "clock3")
    what = "%s in a fresh state vs. %s after %s%s (each call at its own arbitrary wall-clock instant)" % (g, g, f, (" and " + extra) if extra else "")
    hx.prove(s0 == s1, "%s: the same arguments succeed / fail the same way" % what)
    if s0 == "ok" and s1 == "ok":
        hx.prove(same_value(r0, r1), "%s: same result for the same arguments" % what)
        if r0 is not None and isinstance(r0, (bitarray, bytearray, list)):
            hx.prove(r0 is not r1 or len(r0) == 0, "%s: results are fresh objects (a caller may modify what it got back)" % what)
    elif s0 == "exc" and s1 == "exc":
        hx.prove(type(r0) is type(r1), "%s: the same arguments fail the same way" % what)
    hx.cover("pair")


def cases(tier, seed):
    names = list(ENTRY)
    pairs = []
    for g in names:
        for f in names:
            same_family = ENTRY[g][0] == ENTRY[f][0]
            if tier == "thorough" or same_family or f in ("Burst()", "CRC16.calculate", "BPTC19696.decode"):
                pairs.append((g, f))
    out = []
    for g, f in pairs:
        out.append(Case("%s--after--%s" % (g, f), "h_pair", dict(g=g, f=f), covers=["pair"], budget_s=600, opts=dict(max_paths=3000, max_violations=6, solver_timeout_ms=60000, tabulate_calls=["ReedSolomon1294.log_multiply"]),
                        bounds="history g=%s, f=%s, g; all arguments symbolic" % (g, f)))
    if tier == "thorough":
        for g in names:
            fam = [n for n in names if ENTRY[n][0] == ENTRY[g][0]]
            for i, f in enumerate(fam):
                out.append(Case("%s--after--%s+%s" % (g, f, fam[(i + 1) % len(fam)]), "h_pair", dict(g=g, f=f, extra=fam[(i + 1) % len(fam)]), covers=["pair"], budget_s=600,
                                opts=dict(max_paths=3000, max_violations=6, tabulate_calls=["ReedSolomon1294.log_multiply"]), bounds="history g, f, f', g inside family %s" % ENTRY[g][0]))
    return out
