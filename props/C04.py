"""C04 — integrity indicators of parsed PDUs tell the truth about the received bits.

Real code: SlotType / EmbeddedSignalling (Golay / QR parity), DataHeader / PIHeader (CRC-CCITT), ShortLinkControl (CRC-8),
Rate12/34/1 confirmed blocks (CRC-9), HRNP (ones-complement checksum) — constructors, from_bits/from_bytes, as_bits/as_bytes.
Oracles: codeword membership from the ETSI generator matrices (props/etsi_matrices.py); CRC truth from the polynomial-division
reference of props/C05.py; ones-complement sum written as a fold in this file.  Every received word of the right length is covered
(all bits symbolic), so 'indicator == truth for every received word' also gives the detection clause: C05 proves that no error
burst <= check width and (CCITT, 96 bits) no pattern of weight <= 3 maps a valid word to another word satisfying the CRC equation.
"""
from bitarray import bitarray
from bitarray.util import ba2int, int2ba
from sxl.bits import bxor
from vf.api import Case, T, AND, OR, NOT, IMPLIES, IFF, EQ
from props import etsi_matrices as ETSI
from props.C05 import ref_crc, bits_to_int
from props.C06 import ref_encode
from props.pdu_common import KINDS, DOCUMENTED, ctor_kwargs, concrete_member, public_fields, feq
from okdmr.dmrlib.etsi.layer2.pdu.slot_type import SlotType
from okdmr.dmrlib.etsi.layer2.pdu.embedded_signalling import EmbeddedSignalling
from okdmr.dmrlib.etsi.layer2.pdu.rate12_data import Rate12DataTypes
from okdmr.dmrlib.hytera.pdu.hrnp import HRNP, HRNPOpcodes

EXPLANATION = ("C04: every received word is symbolic; on each decode path the 'ok' indicator is compared with an independent truth predicate over the received bits. "
               "The in-band 'check field == 0 means generate' convention of the constructors is recorded as a known finding per PDU (see known_findings.json).")
BOUNDS = {"quick": "all 2^20 slot-type words, all 2^16 EMB words, all 2^96 data-header / PI-header words, all 2^36 short-LC words, all confirmed rate-1/2, 3/4, 1 blocks (96/144/192 bits, "
                   "plain and last), all 12-octet HRNP frames; every CRC-protected kind also as the SECOND of two independent received words; library-generated PDUs of every kind (built from every decodable field combination) parse back with the indicator true",
          "thorough": "same as quick"}
OUTSIDE = "HRNP frames with an HDAP payload (covered structurally under C12); corruption beyond the codes' guaranteed detection capability"
ASSUMPTIONS = ["CRC conventions as in C05; CRC-9 of a last block covers data | CRC-32 | DBSN (as in the captured vectors of the repository's test_crc9)",
               "short-LC CRC-8 travels least-significant bit first in the 36 info bits (the convention of the library's own VBPTC extractor and tests)"]
SENTINEL = "C04-zero-check-field-means-generate"
NORMALISED = "C04-check-evaluated-on-normalised-fields"
CHECK_POS = {"DataHeader": (80, 96), "PIHeader": (80, 96), "ShortLC": (28, 36), "Rate": (7, 16)}


def inv_masked(ref_bits, mask):
    return bits_to_int([bxor(x, 1) for x in ref_bits]) ^ mask


def h_slot(hx):
    w = hx.ba(20, "w")
    member = EQ(w.tolist(), ref_encode(ETSI.Golay2087, w.tolist()[:8]))
    st, s = hx.guard(SlotType.from_bits, w.copy())
    if st == "exc":
        hx.prove(isinstance(s, DOCUMENTED), "slot type: decode fails only with a documented error, got %s" % type(s).__name__)
        hx.cover("error")
        return
    hx.prove(IFF(s.fec_parity_ok, member), "slot type: fec_parity_ok <=> the 20 received bits are a Golay(20,8) codeword",
             known={SENTINEL + ":slot-type": NOT(OR(*w.tolist()[8:])), NORMALISED + ":slot-type": NOT(s.as_bits()[:8] == w[:8])})
    hx.prove(s.colour_code == ba2int(w[:4]), "slot type: colour code is the received field")
    # library-generated slot type parses back with the indicator true
    g = SlotType(colour_code=s.colour_code, data_type=s.data_type)
    p = SlotType.from_bits(g.as_bits())
    hx.prove(AND(g.fec_parity_ok, p.fec_parity_ok), "slot type built from (colour code, data type): indicator true after serialise -> parse")
    hx.prove(EQ(g.as_bits().tolist(), ref_encode(ETSI.Golay2087, g.as_bits().tolist()[:8])), "slot type built from fields is a Golay codeword")
    hx.cover("decoded")


def h_emb(hx):
    w = hx.ba(16, "w")
    member = EQ(w.tolist(), ref_encode(ETSI.QuadraticResidue1676, w.tolist()[:7]))
    st, s = hx.guard(EmbeddedSignalling.from_bits, w.copy())
    if st == "exc":
        hx.prove(isinstance(s, DOCUMENTED), "EMB: decode fails only with a documented error, got %s" % type(s).__name__)
        hx.cover("error")
        return
    hx.prove(IFF(s.emb_parity_ok, member), "EMB: emb_parity_ok <=> the 16 received bits are a QR(16,7) codeword",
             known={SENTINEL + ":emb": NOT(OR(*w.tolist()[7:]))})
    g = EmbeddedSignalling(colour_code=s.colour_code, preemption_and_power_control_indicator=s.preemption_and_power_control_indicator.value,
                           link_control_start_stop=s.link_control_start_stop)
    p = EmbeddedSignalling.from_bits(g.as_bits())
    hx.prove(AND(g.emb_parity_ok, p.emb_parity_ok), "EMB built from fields: indicator true after serialise -> parse")
    hx.prove(EQ(g.as_bits().tolist(), ref_encode(ETSI.QuadraticResidue1676, g.as_bits().tolist()[:7])), "EMB built from fields is a QR codeword")
    hx.cover("decoded")


def truth_for(kindname, b, x):
    """(indicator attribute, truth over the received bits, zero-field predicate or None)"""
    bl = b.tolist()
    if kindname == "DataHeader":
        return "crc_ok", ba2int(b[80:96]) == inv_masked(ref_crc(bl[:80], 16), 0xCCCC), NOT(OR(*bl[80:96]))
    if kindname == "PIHeader":
        return "crc_ok", ba2int(b[80:96]) == inv_masked(ref_crc(bl[:80], 16), 0x6969), None
    if kindname == "ShortLC":
        ref = ref_crc(bl[:28], 8)
        return "crc_ok", EQ(bl[28:36], ref[::-1]), NOT(OR(*bl[28:36]))
    if kindname.startswith("Rate"):
        mask = {"Rate12": 0x0F0, "Rate34": 0x1FF, "Rate1": 0x10F}[kindname.split("-")[0]]
        n = len(bl)
        last = kindname.endswith("ConfirmedLastBlock")
        # data | crc32 (last block) | dbsn ; received CRC-9 field travels least significant bit first
        cover = bl[16:n] + bl[0:7]
        ref = ref_crc(cover, 9)
        want = inv_masked(ref, mask)
        got = bits_to_int(bl[7:16][::-1])
        zero32 = NOT(OR(*bl[n - 32:n])) if last else 0
        return "crc9_ok", got == want, OR(NOT(OR(*bl[7:16])), zero32)
    raise KeyError(kindname)


def h_crc_pdu(hx, kind):
    k = KINDS[kind]
    b = hx.ba(k.nbits, "b")
    st, x = hx.guard(k.decode, b.copy())
    if st == "exc":
        hx.prove(isinstance(x, DOCUMENTED), "%s: decode fails only with a documented error, got %s" % (kind, type(x).__name__))
        hx.cover("error")
        return
    attr, truth, zero = truth_for(kind, b, x)
    known = {SENTINEL + ":" + kind.split("-")[0]: zero} if zero is not None else {}
    lo, hi = CHECK_POS["Rate" if kind.startswith("Rate") else kind]
    yb = x.as_bits()
    same = AND(yb[:lo] == b[:lo], yb[hi:] == b[hi:]) if len(yb) == len(b) else 0
    known[NORMALISED + ":" + kind.split("-")[0]] = NOT(same)
    hx.prove(IFF(getattr(x, attr), truth), "%s: %s <=> the received check field equals the check value of the received bits" % (kind, attr), known=known)
    # "never a silently accepted PDU with different field values": every field of an accepted PDU is a function of the bits the check is computed
    # over (the PDU's own serialisation) - a field read from received bits that the serialisation drops would change under corruption the check cannot see
    st4, p2 = hx.guard(k.decode, yb.copy())
    hx.prove(st4 == "ok", "%s: the serialisation of a decoded PDU decodes" % kind)
    if st4 == "ok":
        for f in public_fields(x):
            if f in k.check_attrs or f == attr:
                continue
            hx.prove(IMPLIES(getattr(x, attr), feq(getattr(x, f), getattr(p2, f, None))),
                     "%s: field %s of an accepted PDU is determined by the bits its check covers (it survives serialise -> parse)" % (kind, f))
    # serialise what the library builds from these fields (check field left to the library) and parse it back
    kw, _ = ctor_kwargs(k, x)
    st2, g = hx.guard(k.cls, **kw)
    hx.prove(st2 == "ok", "%s: building from decoded fields does not fail" % kind)
    if st2 == "ok":
        y = g.as_bits()
        st3, p = hx.guard(k.decode, y.copy())
        hx.prove(st3 == "ok", "%s: the library's own serialisation parses" % kind)
        if st3 == "ok":
            hx.prove(getattr(p, attr), "%s: a library-serialised PDU parses back with %s true" % (kind, attr))
            a2, truth2, _z = truth_for(kind, y, p)
            n = len(y)
            zero32 = NOT(OR(*y.tolist()[n - 32:n])) if kind.endswith("ConfirmedLastBlock") else 0
            hx.prove(truth2, "%s: the check field the library generates satisfies the reference check equation" % kind,
                     known={SENTINEL + ":" + kind.split("-")[0]: zero32})
    hx.cover("decoded")


def h_crc_second(hx, kind):
    """the indicator of a received word must not depend on what the library parsed before: a first word is decoded (and serialised), then a
    second, independent word of the same kind - indicator <=> truth for the second one (a result cache keyed on part of the PDU shows here)"""
    k = KINDS[kind]
    b1 = hx.ba(k.nbits, "b")
    st1, x1 = hx.guard(k.decode, b1.copy())
    if st1 == "ok":
        hx.guard(x1.as_bits)
    b2 = hx.ba(k.nbits, "c")
    st, x = hx.guard(k.decode, b2.copy())
    if st == "exc":
        hx.prove(isinstance(x, DOCUMENTED), "%s (second word): decode fails only with a documented error, got %s" % (kind, type(x).__name__))
        hx.cover("error")
        return
    attr, truth, zero = truth_for(kind, b2, x)
    known = {SENTINEL + ":" + kind.split("-")[0]: zero} if zero is not None else {}
    lo, hi = CHECK_POS["Rate" if kind.startswith("Rate") else kind]
    yb = x.as_bits()
    same = AND(yb[:lo] == b2[:lo], yb[hi:] == b2[hi:]) if len(yb) == len(b2) else 0
    known[NORMALISED + ":" + kind.split("-")[0]] = NOT(same)
    hx.prove(IFF(getattr(x, attr), truth), "%s: %s of a word received AFTER another word was parsed <=> its own check field equals the check value of its own bits" % (kind, attr), known=known)
    hx.cover("decoded")


def ones_complement(words):
    s = 0
    for w in words:
        s = s + w
    while s >> 16:                      # end-around carry until it fits 16 bits
        s = (s & 0xFFFF) + (s >> 16)
    return (~s) & 0xFFFF


def h_hrnp(hx, opcode):
    d = hx.bytes(12, "d")
    # declared split on the opcode octet (one case per defined opcode, one for all undefined values) and on the received length field
    ops = sorted(m.value for m in HRNPOpcodes)
    if opcode is None:
        hx.assume(AND(*[d[3] != v for v in ops]))
    else:
        hx.assume(d[3] == opcode)
        d = bytes(list(d[:3]) + [opcode] + list(d[4:]))
    len12 = hx.flag("length-field-is-12")
    if len12:
        hx.assume(AND(d[8] == 0, d[9] == 12))
        d = bytes(list(d[:8]) + [0, 12] + list(d[10:]))
    else:
        hx.assume(NOT(AND(d[8] == 0, d[9] == 12)))
    st, h = hx.guard(HRNP.from_bytes, d)
    if st == "exc":
        hx.cover("error")            # any exception is a 'decode error' for C04 (which exceptions are acceptable is C12/C17's business)
        return
    if h.has_data():
        hx.cover("data-opcode")
        return                       # DATA frames carry an HDAP: C12
    label = "HRNP: checksum_correct <=> the received checksum is the ones-complement sum of the received header"
    words = [d[i] * 256 + d[i + 1] for i in (0, 2, 4, 6, 8)]
    truth = (d[10] * 256 + d[11]) == ones_complement(words)
    if len12:
        hx.prove(IFF(h.checksum_correct, truth), label)
        hx.cover("length-ok")
    else:
        hx.prove(IFF(h.checksum_correct, truth), label, known={"C04-hrnp-length-field-not-checksummed": True})
        hx.cover("length-differs")
        return
    out = h.as_bytes()
    st2, p = hx.guard(HRNP.from_bytes, out)
    hx.prove(st2 == "ok", "HRNP: own serialisation parses")
    if st2 == "ok":
        hx.prove(p.checksum_correct, "HRNP: a library-serialised frame parses back with checksum_correct true")
        w2 = [out[i] * 256 + out[i + 1] for i in (0, 2, 4, 6, 8)]
        hx.prove((out[10] * 256 + out[11]) == ones_complement(w2), "HRNP: generated checksum verifies against the independent reference")
        hx.prove((out[8] * 256 + out[9]) == len(out), "HRNP: length field equals the number of octets produced")
    hx.cover("decoded")


CRC_KINDS = ["DataHeader", "PIHeader", "ShortLC", "Rate12-Confirmed", "Rate12-ConfirmedLastBlock", "Rate34-Confirmed", "Rate34-ConfirmedLastBlock",
             "Rate1-Confirmed", "Rate1-ConfirmedLastBlock"]


def cases(tier, seed):
    out = [Case("slot-type", "h_slot", {}, covers=["decoded"], budget_s=300, bounds="20 symbolic bits (all 2^20 words)"),
           Case("emb", "h_emb", {}, covers=["decoded"], budget_s=300, bounds="16 symbolic bits (all 2^16 words)"),
]
    for op in sorted(m.value for m in HRNPOpcodes) + [None]:
        out.append(Case("hrnp-header-op%s" % ("%02x" % op if op is not None else "-undefined"), "h_hrnp", dict(opcode=op), budget_s=400, opts=dict(max_paths=2000),
                        bounds="12 symbolic octets, opcode octet %s" % ("0x%02x" % op if op is not None else "any undefined value")))
    for k in CRC_KINDS:
        out.append(Case("crc-" + k, "h_crc_pdu", dict(kind=k), covers=["decoded"], budget_s=600, opts=dict(max_paths=3000, max_violations=6),
                        bounds="%d symbolic bits" % KINDS[k].nbits))
    for k in CRC_KINDS:
        out.append(Case("crc-second-" + k, "h_crc_second", dict(kind=k), covers=["decoded"], budget_s=600, opts=dict(max_paths=6000, max_violations=6),
                        bounds="two independent received words of %d symbolic bits each, parsed one after the other" % KINDS[k].nbits))
    return out
