"""C03 — layer-2/3 PDUs and information elements survive encode-decode with every field; element enumerations are total.

Real code: from_bits / as_bits / __init__ of CSBK, DataHeader, FullLinkControl, ShortLinkControl, PIHeader, Rate12/34/1 data,
UDPIPv4CompressedHeader and every element class under etsi/layer2/elements and etsi/layer3/elements.
"""
import enum
import importlib
import pkgutil
from bitarray import bitarray
from bitarray.util import ba2int, int2ba
from vf.api import Case, T, AND, OR, NOT, IMPLIES, IFF, EQ
from props.pdu_common import KINDS, decode_roundtrip, DOCUMENTED, feq, flag_params
from okdmr.dmrlib.etsi.layer2.pdu.full_link_control import FullLinkControl
from okdmr.dmrlib.etsi.layer2.elements.flcos import FLCOs
from okdmr.dmrlib.etsi.layer2.elements.feature_set_ids import FeatureSetIDs
from okdmr.dmrlib.etsi.layer3.elements.position_error import PositionError
import okdmr.dmrlib.etsi.layer2.elements as L2E
import okdmr.dmrlib.etsi.layer3.elements as L3E

EXPLANATION = ("C03: every PDU decoder runs on fully symbolic bits of the right length (all 2^n strings; all formats/opcodes appear as paths), "
               "then the decoded object is re-serialised, re-parsed and rebuilt through the constructor from its field values. "
               "Element enums: the w-bit value is symbolic (all 2^w values in one run).")
BOUNDS = {"quick": "all right-length bit strings for CSBK(96) DataHeader(96) FullLC(96,77) ShortLC(36) PIHeader(96) Rate1/2(96) Rate3/4(144) Rate1(192) x 4 block types + untyped, "
                   "UDP/IPv4 header with 0/16/32/72 bits after the fixed part; every element enum over its full bit width; GPS-info raw 25/24-bit coordinates (exact dyadic floats)",
          "thorough": "same as quick"}
OUTSIDE = ("__repr__; talker-alias text decoding; GPS: floats that are not exact multiples of the quantisation step (field-side quantisation clause not decided); "
           "UDP/IPv4 user data longer than 72 bits (pure pass-through slice)")
ASSUMPTIONS = ["'documented undefined / not implemented errors' are NotImplementedError, KeyError, ValueError (enum _missing_) and the AssertionErrors the decoders raise for out-of-range elements",
               "constructor parameters are matched to attributes by name (plus the alias table in props/pdu_common.py); check fields (crc, crc9, crc_8bit) are left for the library to generate"]

KNOWN_FIELDS = {}      # no finding of C03 is recorded as known: the three that were found are fixed (known_findings.json)


def h_decode(hx, kind, part):
    decode_roundtrip(hx, kind, known=KNOWN_FIELDS.get(kind), part=part)


def element_enums():
    out = []
    for pkg in (L2E, L3E):
        for mi in pkgutil.iter_modules(pkg.__path__):
            m = importlib.import_module(pkg.__name__ + "." + mi.name)
            for name, obj in sorted(vars(m).items()):
                if isinstance(obj, type) and issubclass(obj, enum.Enum) and obj.__module__ == m.__name__ and len(obj) > 0:
                    if all(isinstance(e.value, int) and not isinstance(e.value, bool) and e.value >= 0 for e in obj):
                        out.append((m.__name__.rsplit(".", 1)[1] + "." + name, obj))
    return out


ENUMS = dict(element_enums())


def enum_width(E):
    for e in E:
        if hasattr(e, "as_bits"):
            try:
                return len(e.as_bits())
            except Exception:
                pass
    return max(1, max(e.value for e in E).bit_length())


def h_enum(hx, name):
    E = ENUMS[name]
    w = min(enum_width(E), 24)
    values = {e.value for e in E}
    v = hx.int(w, "v")
    st, r = hx.guard(lambda: E(v))
    defined = OR(*[v == x for x in sorted(values) if x < (1 << w)])
    if st == "exc":
        hx.prove(isinstance(r, DOCUMENTED), "%s(%d-bit value): undefined value raises a documented error, got %s" % (name, w, type(r).__name__))
        hx.prove(NOT(defined), "%s: a defined value never raises" % name)
        hx.cover("error")
    else:
        hx.prove(r is not None, "%s: a value maps to a member, never to nothing" % name)
        hx.prove(isinstance(r, E) if not hx.symbolic else True, "%s: result is a member of the enumeration" % name)
        hx.prove(IMPLIES(defined, r.value == v), "%s: a defined value maps to itself" % name)
        hx.cover("member")
    # from_bits / as_bits over the members and over all bit patterns
    if hasattr(E, "from_bits") and any(hasattr(e, "as_bits") for e in E):
        for e in E:
            bits = e.as_bits()
            if len(bits) == w and e.value < (1 << w):
                hx.prove(E.from_bits(bits) is e, "%s: from_bits(as_bits(%s)) is the same member" % (name, e.name))
        b = hx.ba(w, "b")
        st2, r2 = hx.guard(E.from_bits, b)
        if st2 == "exc":
            hx.prove(isinstance(r2, DOCUMENTED), "%s.from_bits: undefined pattern raises a documented error, got %s" % (name, type(r2).__name__))
        else:
            hx.prove(r2 is not None, "%s.from_bits: never nothing" % name)
            if r2 is None:
                return
            y = r2.as_bits()
            hx.prove(E.from_bits(y) is r2 if not hx.symbolic else feq(E.from_bits(y), r2), "%s: as_bits of a decoded member decodes to the same member" % name)


def h_gps(hx):
    """GPS Info full LC: every raw 25-bit longitude / 24-bit latitude survives decode -> float -> encode"""
    lon, lat = hx.sint(25, "lon"), hx.sint(24, "lat")
    pe = hx.int(3, "pe")
    head = bitarray("00") + FLCOs.GPSInfo.as_bits() + FeatureSetIDs.StandardizedFID.as_bits() + bitarray("0000") + int2ba(pe, length=3)
    bits = head + int2ba(lon, length=25, signed=True) + int2ba(lat, length=24, signed=True) + bitarray("0" * 24)
    x = FullLinkControl.from_bits(bits)
    y = x.as_bits()
    hx.prove(len(y) == 96, "GPS info: 96 bits")
    hx.prove(ba2int(y[23:48], signed=True) == lon, "GPS info: raw longitude survives decode (float) -> encode for all 2^25 values")
    hx.prove(ba2int(y[48:72], signed=True) == lat, "GPS info: raw latitude survives decode (float) -> encode for all 2^24 values")
    hx.prove(y == bits, "GPS info: re-serialises to the same bits")
    x2 = FullLinkControl(protect_flag=0, flco=FLCOs.GPSInfo, fid=FeatureSetIDs.StandardizedFID, crc=bitarray("0" * 24), position_error=x.position_error,
                         longitude=x.longitude, latitude=x.latitude)
    hx.prove(x2.as_bits() == bits, "GPS info: built from the decoded float fields it serialises to the same bits")
    hx.cover("gps")


def cases(tier, seed):
    out = []
    for k in KINDS:
        parts = ["fixed", "ctor"] + ["flag:" + f for f in flag_params(k)]
        for part in parts:
            out.append(Case("decode-%s-%s" % (k, part.replace(":", "-")), "h_decode", dict(kind=k, part=part), covers=[], budget_s=600,
                            opts=dict(max_paths=4000, max_violations=6), bounds="%d symbolic bits; part=%s" % (KINDS[k].nbits, part)))
    for name in ENUMS:
        out.append(Case("enum-" + name, "h_enum", dict(name=name), budget_s=120, opts=dict(max_paths=600), bounds="full bit width symbolic"))
    out.append(Case("gps-info", "h_gps", {}, covers=["gps"], budget_s=300, bounds="25-bit longitude, 24-bit latitude, 3-bit position error symbolic"))
    return out
