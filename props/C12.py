"""C12 — Hytera HSTRP / HRNP / HDAP messages are framed consistently and re-encode equally.

Real code: HDAP.as_bytes / __len__ / from_bytes / get_hdap_checksum / get_reliable_and_service, RadioRegistrationService,
LocationProtocol (+GPSData), TextMessageProtocol, RadioControlProtocol (from_bytes / get_payload / get_opcode / constructors),
RadioIP, HRNP.* , HSTRP.* , HSTRPOptions, HSTRPPacketType.

Application PDUs are obtained by PARSING a frame whose service byte, opcode and length fields are concrete and whose payload octets,
reliable flag and checksum octet are symbolic: the parsed object ranges over every in-range field combination of that opcode.
It is then serialised (framing obligations), re-parsed (field equality), re-serialised, rebuilt with the reliable / confirmed flags
forced both ways, and nested in HRNP and HSTRP.
"""
import inspect
from vf.api import Case, T, AND, OR, NOT, IMPLIES, IFF, EQ
from props.pdu_common import feq
from okdmr.dmrlib.hytera.pdu.hdap import HDAP, HyteraServiceType
from okdmr.dmrlib.hytera.pdu.hrnp import HRNP, HRNPOpcodes
from okdmr.dmrlib.hytera.pdu.hstrp import HSTRP, HSTRPOptions, HSTRPOptionType, HSTRPPacketType
from okdmr.dmrlib.hytera.pdu.radio_ip import RadioIP
from okdmr.dmrlib.hytera.pdu.radio_registration_service import RadioRegistrationService, RRSTypes
from okdmr.dmrlib.hytera.pdu.location_protocol import LocationProtocol, LocationProtocolSpecificService, GPSData
from okdmr.dmrlib.hytera.pdu.text_message_protocol import TextMessageProtocol, TMPService
from okdmr.dmrlib.hytera.pdu.radio_control_protocol import RadioControlProtocol, RCPOpcode

EXPLANATION = ("C12: payload octets, reliable/confirmed flags, HRNP source/destination/packet/block numbers, HSTRP type bits, sequence number and option data are symbolic; "
               "GPS text fields are concrete witnesses inside otherwise symbolic frames.")
BOUNDS = {"quick": "every implemented (service, opcode); one payload size per variable-length field (text 6 octets, talker alias 4, raw payload 3), option data {absent, 0, 3} octets; HRNP nesting; HSTRP with 0..2 options; "
                   "GPS block built from float fields: concrete boundary witnesses only (declared split, not solver-decided)",
          "thorough": "variable-length fields at sizes {0,2,6,14} (text), {0,3} (option data), {0,4} (alias); HSTRP with 0..3 options of data lengths {0,1,4}; GPS witnesses as quick"}
OUTSIDE = ("GPSData numeric text fields (decimal float formatting / parsing is C-level): exercised with fixed concrete NMEA values, not solver-decided; "
           "text longer than 14 octets; surrogate pairs are irrelevant (text is carried as raw octets)")
ASSUMPTIONS = ["HDAP checksum reference: ((sum of octets from opcode through payload) mod 256 xor 0xFF) + 0x33 mod 256, accumulated octet by octet",
               "HRNP checksum reference: ones-complement of the end-around-carry sum of big-endian 16-bit words, zero padded"]

GPS_WITNESSES = {
    "typical": b"A" + b"133051" + b"300321" + b"N" + b"5012.3456" + b"E" + b"01423.4567" + b"5.5" + b"123",
    "zero-speed": b"A" + b"000000" + b"010100" + b"S" + b"0000.0000" + b"W" + b"00000.0000" + b"\x00\x00\x00" + b"\x00\x00\x00",
    "speed-9.9": b"A" + b"235959" + b"311299" + b"N" + b"8959.9999" + b"E" + b"17959.9999" + b"9.9" + b"359",
    "speed-10+": b"A" + b"120000" + b"150620" + b"N" + b"4500.0000" + b"E" + b"01500.0000" + b"012" + b"090",
    "speed-99.5": b"V" + b"120000" + b"150620" + b"S" + b"0100.5000" + b"W" + b"10000.2500" + b"99." + b"001",
}


def hdap_checksum_ref(octets):
    c = 0
    for o in octets:
        c = (c + o) & 0xFF
    return ((c ^ 0xFF) + 0x33) & 0xFF


def ones_complement(words):
    s = 0
    for w in words:
        s = s + w
    while s >> 16:
        s = (s & 0xFFFF) + (s >> 16)
    return (~s) & 0xFFFF


def specs(tier):
    """(name, class, service value, op1, op2, endian of the length field, payload template) — template entries: None = symbolic octet, int = concrete"""
    out = []
    S = lambda n: [None] * n
    for t in RRSTypes:
        n = {"RadioRegistrationAnswer": 9, "RegistrationStatusCheckAnswer": 5}.get(t.name, 4)
        out.append(("RRS-" + t.name, RadioRegistrationService, HyteraServiceType.RRS.value, 0, t.value, "big", S(n)))
    out.append(("LP-StandardRequest", LocationProtocol, HyteraServiceType.LP.value, 0xA0, 0x01, "big", S(8)))
    for gname, g in GPS_WITNESSES.items():
        out.append(("LP-StandardReport-" + gname, LocationProtocol, HyteraServiceType.LP.value, 0xA0, 0x02, "big", S(8) + [0, None] + list(g)))
    texts = (6,) if tier == "quick" else (0, 2, 6, 14)
    opts = (0, 3)
    for t in TMPService:
        body = {"SendPrivateMessage": "text", "SendGroupMessage": "text", "PrivateShortData": "text", "GroupShortData": "text",
                "SendPrivateMessageAck": 13, "PrivateShortDataAck": 13, "SendGroupMessageAck": 9, "GroupShortDataAck": 9}.get(t.name)
        if body is None:
            continue
        for n in (texts if body == "text" else (0,)):
            base = S(12 + n) if body == "text" else S(body)
            out.append(("TMP-%s-%d" % (t.name, n), TextMessageProtocol, HyteraServiceType.TMP.value, "flags0", t.value, "big", base))
            for ol in opts:
                out.append(("TMP-%s-%d-opt%d" % (t.name, n, ol), TextMessageProtocol, HyteraServiceType.TMP.value, "flags1", t.value, "big", [0, ol] + base + S(ol)))
    R = RCPOpcode
    alias = (4,) if tier == "quick" else (0, 4)
    rcp = [("CallRequest", S(5)), ("CallReply", S(1)), ("RepeaterBroadcastTransmitStatus", S(16)), ("BroadcastMessageConfigurationRequest", S(8)),
           ("BroadcastMessageConfigurationReply", S(1)), ("RadioIDAndRadioIPQueryRequest", S(1)), ("RadioIDAndRadioIPQueryReply", S(6)),
           ("BroadcastStatusConfigurationRequest", [2] + S(4)), ("BroadcastStatusConfigurationRequest", [0]), ("BroadcastStatusConfigurationReply", S(1)),
           ("SendTalkerAliasReply", S(10)), ("ZoneAndChannelOperationRequest", S(5)), ("ZoneAndChannelOperationReply", S(3)),
           ("StatusChangeNotificationRequest", [2] + S(4)), ("StatusChangeNotificationRequest", [0]), ("StatusChangeNotificationReply", S(1)), ("RadioStatusReport", S(3))]
    for al in alias:
        rcp.append(("SendTalkerAliasRequest", S(10) + [al] + S(al)))
    for i, (nm, tpl) in enumerate(rcp):
        if not hasattr(R, nm):
            continue
        v = getattr(R, nm).value
        out.append(("RCP-%s-%d" % (nm, len(tpl)), RadioControlProtocol, HyteraServiceType.RCP.value, v & 0xFF, v >> 8, "little", tpl))
    out.append(("RCP-UnknownService", RadioControlProtocol, HyteraServiceType.RCP.value, 0x77, 0x66, "little", S(3)))
    return out


SPECS = {"quick": {s[0]: s for s in specs("quick")}, "thorough": {s[0]: s for s in specs("thorough")}}


def build_frame(hx, spec, pfx=""):
    name, cls, svc, op1, op2, endian, tpl = spec
    rel = hx.bit(pfx + "reliable")
    if isinstance(op1, str):                 # TMP: bit7 = confirmed (symbolic), bit6 = has_option (concrete per case)
        conf = hx.bit(pfx + "confirmed")
        op1 = conf * 128 + (64 if op1 == "flags1" else 0)
    n = len(tpl)
    ln = [n >> 8, n & 0xFF] if endian == "big" else [n & 0xFF, n >> 8]
    pay = [hx.int(8, pfx + "p[%d]" % i) if t is None else t for i, t in enumerate(tpl)]
    return bytes([svc + rel * 128, op1, op2] + ln + pay + [hx.int(8, pfx + "cs"), 3])


def hdap_obligations(hx, x, tag, endian):
    st, b = hx.guard(x.as_bytes)
    hx.prove(st == "ok", "%s: serialising the parsed PDU does not fail (%s: %s)" % (tag, type(b).__name__ if st == "exc" else "", b if st == "exc" else ""))
    if st != "ok":
        return None
    n = len(b)
    pay = x.get_payload()
    hx.prove(n == 7 + len(pay), "%s: 7 framing octets around the payload" % tag)
    hx.prove(len(x) == n, "%s: len(pdu) equals the number of bytes produced" % tag)
    hx.prove((b[0] & 0x7F) == x.get_service_type().value, "%s: service byte" % tag)
    hx.prove(IFF((b[0] & 0x80) == 0x80, x.is_reliable), "%s: reliable flag is bit 7 of the service byte" % tag)
    hx.prove(b[1:3] == x.get_opcode(), "%s: opcode octets" % tag)
    lf = (b[3] * 256 + b[4]) if endian == "big" else (b[4] * 256 + b[3])
    hx.prove(lf == len(pay), "%s: length field equals the actual payload length (%s-endian)" % (tag, endian))
    hx.prove(b[5:n - 2] == pay, "%s: payload octets follow the length field" % tag)
    hx.prove(b[n - 2] == hdap_checksum_ref(list(b[1:n - 2])), "%s: checksum reproduced by the independent computation" % tag)
    hx.prove(b[n - 1] == 3, "%s: 0x03 terminator" % tag)
    return b


def fields_equal(hx, x, q, tag, what):
    for f in sorted(k for k in vars(x) if not k.startswith("_")):
        a, c = getattr(x, f), getattr(q, f, None)
        if isinstance(a, dict):
            continue
        if hasattr(a, "as_bytes") and not hasattr(a, "as_bits") and not isinstance(a, (bytes,)) and a.__class__.__name__ in ("RadioIP", "GPSData"):
            hx.prove(c is not None and a.as_bytes() == c.as_bytes(), "%s: field %s equal %s" % (tag, f, what))
        else:
            hx.prove(feq(a, c), "%s: field %s equal %s" % (tag, f, what))


def h_hdap(hx, name, tier):
    spec = SPECS[tier][name]
    _n, cls, svc, op1, op2, endian, tpl = spec
    frame = build_frame(hx, spec)
    st, x = hx.guard(HDAP.from_bytes, frame)
    if st == "exc":
        hx.prove(isinstance(x, (ValueError, KeyError, AssertionError, NotImplementedError)), "%s: parsing fails only with a documented error, got %s: %s" % (name, type(x).__name__, x))
        hx.cover("error")
        return
    hx.prove(x is not None and isinstance(x, cls), "%s: dispatched to %s" % (name, cls.__name__))
    b = hdap_obligations(hx, x, name, endian)
    if b is None:
        return
    q = HDAP.from_bytes(b)
    hx.prove(q is not None and q.as_bytes() == b, "%s: parse(serialise(x)) serialises to the same bytes" % name)
    fields_equal(hx, x, q, name, "after serialise -> parse")
    # the flags, forced both ways through the constructor-level attribute and a fresh serialisation
    for flag in ("is_reliable", "is_confirmed"):
        if not hasattr(x, flag):
            continue
        keep = getattr(x, flag)
        for v in (False, True):
            setattr(x, flag, v)
            r = HDAP.from_bytes(x.as_bytes())
            hx.prove(r is not None and feq(getattr(r, flag), v), "%s: %s=%s survives serialise -> parse" % (name, flag, v), known={"C12-lp-standard-request-drops-reliable": name == "LP-StandardRequest" and flag == "is_reliable"})
        setattr(x, flag, keep)
    # nested in HRNP
    src, dst, pn, blk = hx.int(8, "src"), hx.int(8, "dst"), hx.int(16, "pn"), hx.int(8, "blk")
    h = HRNP(data=x, opcode=HRNPOpcodes.DATA, source=src, destination=dst, packet_number=pn, block_number=blk)
    hb = h.as_bytes()
    hx.prove(len(hb) == 12 + len(b), "%s in HRNP: 12 header octets + the HDAP" % name)
    hx.prove(hb[8] * 256 + hb[9] == len(hb), "%s in HRNP: length field equals the number of bytes produced" % name)
    hx.prove(hb[12:] == b, "%s in HRNP: the HDAP bytes are carried unchanged" % name)
    padded = list(hb[:10]) + list(hb[12:]) + ([0] if len(hb) % 2 else [])
    words = [padded[i] * 256 + padded[i + 1] for i in range(0, len(padded), 2)]
    hx.prove(hb[10] * 256 + hb[11] == ones_complement(words), "%s in HRNP: ones-complement checksum verifies by the independent reference" % name)
    hp = HRNP.from_bytes(hb)
    hx.prove(hp.checksum_correct, "%s in HRNP: checksum_correct after re-parse" % name)
    hx.prove(hp.as_bytes() == hb, "%s in HRNP: re-encodes to the same bytes" % name)
    hx.prove(AND(hp.source == src, hp.destination == dst, hp.packet_number == pn, hp.block_number == blk), "%s in HRNP: header fields survive" % name)
    # a second, independent PDU of the same opcode parsed afterwards: it re-encodes to ITS canonical bytes and the first one is unaffected
    # (PDUs must not share state, e.g. through a mutable default argument)
    spec2 = spec
    if name.startswith(("RCP-StatusChangeNotificationRequest", "RCP-BroadcastStatusConfigurationRequest")):
        # dict-valued payloads: a symbolic second frame squares the number of paths (measured 1,200 paths / 250 s); the second frame is concrete here
        spec2 = spec[:6] + ([0 if t is None else t for t in tpl],)
    st2, y = hx.guard(HDAP.from_bytes, build_frame(hx, spec2, "second."))
    if st2 == "ok" and y is not None:
        yb = y.as_bytes()
        y2 = HDAP.from_bytes(yb)
        hx.prove(y2 is not None and y2.as_bytes() == yb, "%s: a second PDU parsed afterwards re-encodes equally" % name)
        hx.prove(len(y.get_payload()) <= len(tpl), "%s: a second PDU parsed afterwards carries no more payload than its frame had" % name)
        hx.prove(x.as_bytes() == b, "%s: the first PDU still serialises to the same bytes after another one was parsed" % name)
    hx.cover("ok")


GPS_FIELD_WITNESSES = dict(
    speed=[0.0, 0.04, 0.05, 0.5, 5.5, 9.94, 9.95, 9.97, 9.999, 10.0, 10.04, 12.0, 99.94, 99.96, 100.0, 123.4, 999.0],
    lat=[0.0, 0.00004, 59.99996, 5012.3456, 8959.9999, 9000.0],
    lon=[0.0, 0.00005, 959.99996, 1423.4567, 17959.9999, 18000.0],
    direction=[0, 9, 10, 99, 100, 359])


def h_gps_fields(hx):
    """GPS block BUILT FROM FIELD VALUES (floats): fixed width 40, re-parse -> re-serialise identity.  Decimal float formatting is C-level, so
    this case is a declared split over CONCRETE boundary witnesses (rounding carries such as 9.97 -> '10.0'); it is not solver-decided and is
    reported as such in BOUNDS / OUTSIDE."""
    import datetime
    from okdmr.dmrlib.hytera.pdu.location_protocol import GPSData
    W = GPS_FIELD_WITNESSES
    sp = hx.pick("speed", W["speed"])
    la, lo, di = hx.pick("lat", W["lat"]), hx.pick("lon", W["lon"]), hx.pick("dir", W["direction"])
    g = GPSData(data_valid="A", greenwich_time=datetime.time(13, 30, 51), greenwich_date=datetime.date(2021, 3, 30), north_south="N", latitude=la, east_west="E",
                longitude=lo, speed_knots=sp, direction=di)
    b = g.as_bytes()
    what = "GPS block built from fields (speed %r kn, lat %r, lon %r, direction %r)" % (sp, la, lo, di)
    hx.prove(len(b) == 40, "%s: 40 octets (got %d)" % (what, len(b)))
    if len(b) == 40:
        q = GPSData.from_bytes(b)
        hx.prove(q.as_bytes() == b, "%s: parse -> serialise gives the same 40 octets" % what)
        hx.prove(AND(q.direction == di, q.north_south == "N", q.east_west == "E"), "%s: direction and hemispheres survive" % what)
        hx.prove(abs(q.latitude - la) <= 0.00005001 and abs(q.longitude - lo) <= 0.00005001, "%s: coordinates survive to the 4 decimals of the wire format" % what)
    hx.cover("gps-fields")


def h_hstrp(hx, name, tier, nopts, optlen):
    spec = SPECS[tier][name]
    frame = build_frame(hx, spec)
    st, x = hx.guard(HDAP.from_bytes, frame)
    if st == "exc" or x is None:
        hx.cover("error")
        return
    b = x.as_bytes()
    sn = hx.int(16, "sn")
    opts = HSTRPOptions()
    kinds = list(HSTRPOptionType)
    for i in range(nopts):
        opts.add_option(hx.pick("optkind%d" % i, kinds), hx.bytes(optlen, "opt%d" % i))
    pt = HSTRPPacketType(have_options=True, is_ack=hx.flag("ack"), is_connect=hx.flag("connect"), is_close=hx.flag("close"), is_reject=hx.flag("reject"))
    p = HSTRP(pkt_type=pt, sn=sn, options=opts if nopts else None, payload=x)
    pb = p.as_bytes()
    hx.prove(pb[0:2] == b"2B", "HSTRP: header")
    hx.prove(pb[4] * 256 + pb[5] == sn, "HSTRP: sequence number big-endian")
    hx.prove(pb[len(pb) - len(b):] == b, "HSTRP(%s): application payload carried unchanged after %d options" % (name, nopts))
    hx.prove(len(pb) == 6 + nopts * (2 + optlen) + len(b), "HSTRP: total length")
    if nopts:                                 # an option list is only parseable when there is at least one option (has_next is read from the first octet)
        stq, q = hx.guard(HSTRP.from_bytes, pb)
        hx.prove(stq == "ok", "HSTRP(%s) with %d options of %d octets: the serialised datagram parses (%s: %s)" % (name, nopts, optlen, type(q).__name__ if stq == "exc" else "", q if stq == "exc" else ""))
        if stq != "ok":
            return
        hx.prove(q is not None and q.as_bytes() == pb, "HSTRP(%s) with %d options of %d octets: parse -> serialise gives the same bytes" % (name, nopts, optlen))
        hx.prove(AND(q.sn == sn, len(q.options.options) == nopts), "HSTRP: sequence number and option count survive")
        hx.prove(q.payload is not None and q.payload.as_bytes() == b, "HSTRP: nested application PDU re-encodes equally")
    hx.cover("ok")


def cases(tier, seed):
    out = [Case("gps-built-from-fields", "h_gps_fields", {}, covers=["gps-fields"], budget_s=300, opts=dict(max_paths=20000),
                bounds="concrete witnesses (not solver-decided): %d speeds x %d latitudes x %d longitudes x %d directions at the rounding boundaries of the fixed-width text fields" % tuple(
                    len(GPS_FIELD_WITNESSES[k]) for k in ("speed", "lat", "lon", "direction")))]
    for name in SPECS[tier]:
        out.append(Case("hdap-" + name, "h_hdap", dict(name=name, tier=tier), budget_s=600, opts=dict(max_paths=1500, max_violations=6),
                        bounds="frame of %d octets: payload, reliable flag, checksum octet symbolic; HRNP source/destination/packet/block symbolic" % (7 + len(SPECS[tier][name][6]))))
    hs = [("RRS-RadioRegistrationRequest", 0, 0), ("RRS-RadioRegistrationRequest", 1, 4), ("RRS-RadioRegistrationAnswer", 2, 1), ("RCP-CallReply-1", 1, 0)]
    if tier == "thorough":
        hs += [("RRS-RadioRegistrationRequest", 3, 1), ("LP-StandardRequest", 2, 4), ("RCP-CallRequest-5", 3, 0), ("TMP-SendGroupMessageAck-0", 2, 1)]
    for name, n, l in hs:
        if name in SPECS[tier]:
            out.append(Case("hstrp-%s-%dx%d" % (name, n, l), "h_hstrp", dict(name=name, tier=tier, nopts=n, optlen=l), budget_s=1200, opts=dict(max_paths=40000),
                            bounds="HSTRP around %s with %d options of %d symbolic octets, type bits and sequence number symbolic" % (name, n, l)))
    return out
