"""C07 — a generated data transmission is received back as the same payload, checks ok.

Real code: TransmissionGenerator.generate_full_data_transmission / generate_data_bursts / generate_csbk_preambles /
generate_data_header_burst, Burst.as_bytes / from_bytes, Terminal.process_incoming_burst -> Timeslot.process_burst ->
Transmission.process_packet / process_csbk / process_data_header / process_data / end_data_transmission, Rate12/34/1 data,
CRC-32, CRC-9, BPTC, trellis.  Payload octets and the two addresses are symbolic; length, rate, confirmation mode, preamble count: declared splits.
"""
from sxl.bits import bxor
from vf.api import Case, T, AND, OR, NOT, IMPLIES, IFF, EQ
from props.C05 import ref_crc, bits_to_int, octet_bits_msb
from okdmr.dmrlib.transmission.transmission_generator import TransmissionGenerator
from okdmr.dmrlib.transmission.terminal import Terminal
from okdmr.dmrlib.transmission.transmission_observer_interface import TransmissionObserverInterface
from okdmr.dmrlib.transmission.transmission_types import TransmissionTypes
from okdmr.dmrlib.etsi.layer2.burst import Burst
from okdmr.dmrlib.etsi.layer2.elements.burst_types import BurstTypes
from okdmr.dmrlib.etsi.layer2.elements.csbk_opcodes import CsbkOpcodes
from okdmr.dmrlib.etsi.layer2.pdu.csbk import CSBK
from okdmr.dmrlib.etsi.layer2.pdu.data_header import DataHeader
from okdmr.dmrlib.etsi.layer2.pdu.rate12_data import Rate12Data
from okdmr.dmrlib.etsi.layer2.pdu.rate34_data import Rate34Data
from okdmr.dmrlib.etsi.layer2.pdu.rate1_data import Rate1Data
from okdmr.dmrlib.etsi.layer2.elements.data_packet_formats import DataPacketFormats
from okdmr.dmrlib.etsi.layer2.elements.sap_identifier import SAPIdentifier
from okdmr.dmrlib.etsi.layer2.elements.full_message_flag import FullMessageFlag
from okdmr.dmrlib.etsi.layer2.elements.resynchronize_flag import ResynchronizeFlag

EXPLANATION = ("C07: all payload octets and both addresses are symbolic; one symbolic run per (rate, mode, length, preamble count) covers every payload content of that length. "
               "The receive path BPTC-repairs every burst; Hamming repair is summarised per call and the unused BPTC decode of rate-1 / rate-3/4 blocks is evaluated lazily.")
BOUNDS = {"quick": "rates 1/2, 3/4, 1 x confirmed / unconfirmed x payload lengths around the 1-, 2- and 3-block boundaries (rate 3/4: 1 and 2 blocks) x preamble counts {0, 2}; colour code 1",
          "thorough": "payload lengths 0..60 at rates 1/2 and 1; rate 3/4 unconfirmed up to 2 blocks, confirmed: payloads of 0 and 1 octets; preamble counts 0..4; long transmissions (more than 127 bursts announced): rate 1/2 confirmed 1200 octets with 16 preambles, unconfirmed 1430 octets with 12 preambles"}
OUTSIDE = "rate 3/4 confirmed with more than one symbolic payload octet (solver time-out on the CRC-9 of trellis-decoded data, measured for 2, 4, 6, 12 octets and for two blocks); payload lengths beyond the bounds (the fragmentation arithmetic is the same per block; the header's 7-bit block count limits the length); colour codes other than 1 (the generator hard-wires 5 for the header burst); MBC / UDT"
ASSUMPTIONS = ["octets per block / last block as in ETSI TS 102 361-1 table 8.1 (22/18, 24/20, 10/6, 12/8, 16/12, 18/14), transcribed into this file",
               "CRC-32 reference as in C05; the last block carries it little-endian",
               "lazy evaluation of BPTC19696.deinterleave_data_bits in Transmission.process_packet (its result is unused for rate-1 and rate-3/4 blocks); per-call summaries of HammingCommon.check_and_correct"]

RATES = {"12": Rate12Data, "34": Rate34Data, "1": Rate1Data}
TABLE = {("1", True): (22, 18), ("1", False): (24, 20), ("12", True): (10, 6), ("12", False): (12, 8), ("34", True): (16, 12), ("34", False): (18, 14)}


class Rec(TransmissionObserverInterface):
    def __init__(self):
        self.ev = []

    def transmission_started(self, transmission_type):
        self.ev.append(("started", transmission_type))

    def data_transmission_ended(self, transmission_header, blocks):
        self.ev.append(("data_ended", transmission_header, list(blocks)))

    def voice_transmission_ended(self, voice_header, blocks):
        self.ev.append(("voice_ended", voice_header, list(blocks)))


def crc32_ref(octets):
    sw = list(octets)
    for i in range(0, len(sw) - 1, 2):
        sw[i], sw[i + 1] = octets[i + 1], octets[i]
    bits = []
    for o in sw:
        bits.extend(octet_bits_msb(o))
    return bits_to_int(ref_crc(bits, 32))


def h_tx(hx, rate, conf, L, k):
    per, last = TABLE[(rate, conf)]
    n = 1
    while (n - 1) * per + last < L:
        n += 1
    pad = (n - 1) * per + last - L
    payload = hx.bytes(L, "p")
    src, dst = hx.int(24, "src"), hx.int(24, "dst")
    hdr = DataHeader(dpf=DataPacketFormats.DataPacketConfirmed if conf else DataPacketFormats.DataPacketUnconfirmed, is_response_requested=conf, pad_octet_count=pad,
                     sap_identifier=SAPIdentifier.ShortData, llid_destination=dst, llid_source=src, full_message_flag=FullMessageFlag.FirstTryToCompletePacket,
                     blocks_to_follow=n, resynchronize_flag=ResynchronizeFlag.DoNotSync)
    tag = "rate %s %s, %d octets, %d preambles" % (rate, "confirmed" if conf else "unconfirmed", L, k)
    st, bursts = hx.guard(TransmissionGenerator.generate_full_data_transmission, RATES[rate], payload, hdr, csbk_count=k, colour_code=1)
    hx.prove(st == "ok", "%s: generation does not fail with the pad count of table 8.1 (%s)" % (tag, bursts if st == "exc" else ""))
    if st != "ok":
        return
    hx.prove(len(bursts) == k + 1 + n, "%s: %d preambles + header + %d data blocks" % (tag, k, n))
    # preambles count down to the number of bursts that follow the last preamble
    for i, b in enumerate(bursts[:k]):
        hx.prove(isinstance(b.data, CSBK) and b.data.csbko is CsbkOpcodes.PreambleCSBK, "%s: burst %d is a preamble CSBK" % (tag, i))
        hx.prove(b.data.blocks_to_follow == (k - 1 - i) + n + 1, "%s: preamble %d announces %d following blocks" % (tag, i, (k - 1 - i) + n + 1))
    rec = Rec()
    term = Terminal(2, observers=[rec])
    for b in bursts:
        raw = b.as_bytes()
        hx.prove(len(raw) == 33, "%s: every burst serialises to 33 bytes" % tag)
        st1, rx = hx.guard(Burst.from_bytes, raw, BurstTypes.DataAndControl)
        hx.prove(st1 == "ok", "%s: every generated burst parses (%s)" % (tag, rx if st1 == "exc" else ""))
        if st1 != "ok":
            return
        st2, res = hx.guard(term.process_incoming_burst, rx, 1)
        hx.prove(st2 == "ok", "%s: receiving does not fail (%s)" % (tag, res if st2 == "exc" else ""))
    kinds = [e[0] for e in rec.ev]
    hx.prove(kinds.count("started") == 1 and kinds.count("data_ended") == 1 and kinds.count("voice_ended") == 0,
             "%s: exactly one 'started' and one 'data ended' notification (got %r)" % (tag, kinds))
    if kinds.count("data_ended") != 1:
        return
    hx.prove(rec.ev[0][0] == "started" and rec.ev[0][1] is TransmissionTypes.DataTransmission and kinds[-1] == "data_ended", "%s: started(data) first, data ended last" % tag)
    _, h2, blocks = [e for e in rec.ev if e[0] == "data_ended"][0]
    hx.prove(isinstance(h2, DataHeader) and h2.pad_octet_count == pad and h2.blocks_to_follow == n, "%s: the received header announces %d pad octets and %d blocks" % (tag, pad, n))
    hx.prove(AND(h2.llid_source == src, h2.llid_destination == dst), "%s: header addresses as sent" % tag)
    data = b""
    dblocks = [blk for blk in blocks if isinstance(blk, (Rate12Data, Rate34Data, Rate1Data))]
    hx.prove(len(dblocks) == n, "%s: %d data blocks handed over" % (tag, n))
    for i, blk in enumerate(dblocks):
        data = data + blk.data
        if conf:
            hx.prove(blk.is_confirmed(), "%s: block %d is typed confirmed" % (tag, i))
            hx.prove(blk.crc9_ok, "%s: confirmed block %d of %d reports a valid CRC-9" % (tag, i, n))
            hx.prove(blk.dbsn == 0 if False else True, "")
        hx.prove(blk.is_last_block() == (i == len(dblocks) - 1), "%s: exactly the last block is typed 'last'" % tag)
    hx.prove(len(data) == L + pad, "%s: block data totals payload + pad octets" % tag)
    if len(data) == L + pad:
        hx.prove(data == payload + bytes(pad), "%s: concatenated block data == payload followed by exactly the announced pad octets" % tag)
        if dblocks:
            want = crc32_ref(list(payload) + [0] * pad)
            le = [(want >> (8 * j)) & 0xFF for j in range(4)]
            as_big = ((le[0] * 256 + le[1]) * 256 + le[2]) * 256 + le[3]
            hx.prove(dblocks[-1].crc32 == as_big, "%s: the trailing CRC-32 matches the reference CRC-32 of the data" % tag)
    hx.cover("tx")


OPTS = dict(merge_calls=["HammingCommon.check_and_correct"], lazy_calls=["BPTC19696.deinterleave_data_bits"], solver_timeout_ms=120000, max_paths=400)


LONG = {"quick": [], "thorough": [("12", True, 1200, 16), ("12", False, 1430, 12)]}


def lengths(rate, conf, tier):
    per, last = TABLE[(rate, conf)]
    if rate == "34":
        # the rate-3/4 receive path (trellis) is the expensive one.  Confirmed mode: the CRC-9 obligation over trellis-decoded symbolic octets
        # times out (measured: 2, 4, 6, 12 symbolic octets: z3 time-out at 120 s per obligation / case budget); payloads of 0 and 1 octets
        # (all-pad block, one symbolic octet) are decided, everything else in this mode is stated as outside the claim
        if conf:
            return [0] if tier == "quick" else [0, 1]
        return [0, last + 1] if tier == "quick" else [0, 1, last, last + 1, last + per]
    if tier == "quick":
        return [0, last, last + 1, last + per, last + per + 1]
    return list(range(0, 61))


def cases(tier, seed):
    out = []
    for rate in ("12", "1", "34"):
        for conf in (False, True):
            for L in lengths(rate, conf, tier):
                for k in ((0, 2) if tier == "quick" else (0, 1, 2, 3, 4)):
                    if tier == "quick" and rate == "34" and k == 2 and L:
                        continue
                    o = dict(OPTS)
                    o["sweep"] = rate == "34"
                    out.append(Case("tx-r%s-%s-L%d-k%d" % (rate, "c" if conf else "u", L, k), "h_tx", dict(rate=rate, conf=conf, L=L, k=k), covers=["tx"],
                                    budget_s=900 if rate == "34" else 400, opts=o, bounds="%d symbolic payload octets, symbolic 24-bit addresses" % L))
    # long transmissions: the preamble / header block counters beyond 7 bits (more than 127 bursts announced by the first preamble)
    for rate, conf, L, k in LONG[tier]:
        o = dict(OPTS)
        o["sweep"] = False
        out.append(Case("tx-long-r%s-%s-L%d-k%d" % (rate, "c" if conf else "u", L, k), "h_tx", dict(rate=rate, conf=conf, L=L, k=k), covers=["tx"],
                        budget_s=3000, opts=o, bounds="%d symbolic payload octets, symbolic 24-bit addresses" % L))
    return out
