"""C14 — MBXML variable-length integers and floats decode to what was encoded.

Real code: MBXML.write_uintvar / read_uintvar / write_sintvar / read_sintvar / write_ufloatvar / read_ufloatvar /
write_sfloatvar / read_sfloatvar / write_infotime, and the INFO_TIME decoding expressions of MBXMLToken.as_xml (taken from its AST).
"""
import ast
import inspect
import textwrap
from datetime import datetime
from bitarray.util import ba2int
from vf.api import Case, T, AND, OR, NOT, IMPLIES, IFF, EQ
from okdmr.dmrlib.motorola.mbxml import MBXML, MBXMLToken
from okdmr.dmrlib.utils.bits_bytes import bytes_to_bits

EXPLANATION = ("C14: the integer value (all 32 bits), sign, integer and fraction parts of the floats and the six date-time fields are symbolic; "
               "bin() is lifted by a fork on the bit length, floats are exact dyadic rationals (every operation the code performs on them is exact in binary64 "
               "for <= 53 significant bits).")
BOUNDS = {"quick": "unsigned 0..2^32-1 and signed |v| <= 2^31-1 complete (with arbitrary trailing bytes and a leading offset); floats: integer part < 2^32 (unsigned) / < 2^31 (signed), "
                   "fraction K/128^p for p = 1, 2, 3; info-time: all field values in range, years 2000..2099",
          "thorough": "same as quick"}
OUTSIDE = ("write_latitude / write_longitude vs the XML view's round(x, 6): CPython's correctly-rounded decimal rounding is not expressible in the solver's FP theory - clause NOT decided; "
           "float values that are not multiples of 128^-p; p > 3")
ASSUMPTIONS = ["floats handed to the writers are exactly representable (integer part + K/128^p within 53 significant bits), so binary64 arithmetic on them is exact",
               "info-time field ranges: month 1..12, day 1..31, hour 0..23, minute/second 0..59"]


def ref_read(b):
    """reference var-int decode: (value, all-but-last have the continuation bit, last has not)"""
    v = 0
    cont_ok = 1
    for i, o in enumerate(b):
        v = v * 128 + (o & 0x7F)
        if i < len(b) - 1:
            cont_ok = AND(cont_ok, (o & 0x80) == 0x80)
        else:
            cont_ok = AND(cont_ok, (o & 0x80) == 0)
    return v, cont_ok


def h_uint(hx):
    v = hx.int(32, "v")
    b = MBXML.write_uintvar(v)
    n = len(b)
    hx.prove(AND(n >= 1, n <= 5), "write_uintvar: 1..5 octets")
    val, cont_ok = ref_read(list(b))
    hx.prove(cont_ok, "write_uintvar: continuation bit exactly on all but the last octet")
    hx.prove(val == v, "write_uintvar: the septets spell the value")
    if n > 1:
        hx.prove((b[0] & 0x7F) != 0, "write_uintvar: canonical shortest form (leading septet non-zero)")
    hx.prove(EQ(MBXML.read_uintvar(b, 0), (v, n)), "read_uintvar(write_uintvar(v)) == (v, bytes consumed)")
    tail = hx.bytes(2, "tail")
    hx.prove(EQ(MBXML.read_uintvar(b + tail, 0), (v, n)), "read_uintvar stops exactly after the written octets (arbitrary trailing bytes)")
    head = hx.bytes(1, "head")
    hx.prove(EQ(MBXML.read_uintvar(head + b + tail, 1), (v, n + 1)), "read_uintvar from an offset")
    hx.cover("len%d" % n)


def h_sint(hx, negative):
    mag = hx.int(31, "mag")
    nz = hx.bit("negative_zero") if not negative else 0
    if negative:
        hx.assume(mag >= 1)
        v = -mag
    else:
        v = mag
    if negative or not hx.symbolic:
        b = MBXML.write_sintvar(v) if negative else MBXML.write_sintvar(v, negative_zero=bool(nz))
    else:
        b = MBXML.write_sintvar(v, negative_zero=nz)
    n = len(b)
    hx.prove(AND(n >= 1, n <= 5), "write_sintvar: 1..5 octets")
    sign_expected = -1 if negative else None
    r = MBXML.read_sintvar(b, 0)
    if negative:
        hx.prove(EQ(r, (v, n, -1)), "read_sintvar(write_sintvar(v)) == (v, consumed, -1) for negative v")
    else:
        # negative_zero is only meaningful for 0 (the float writer uses it for -0.x); for v > 0 with the flag the reader returns -v by design
        hx.prove(IMPLIES(NOT(nz), EQ(r, (v, n, 1))), "read_sintvar(write_sintvar(v)) == (v, consumed, +1) for v >= 0")
        hx.prove(IMPLIES(AND(nz, v == 0), EQ(r, (0, n, -1))), "negative zero reads back as magnitude 0 with sign -1")
    tail = hx.bytes(2, "tail")
    r2 = MBXML.read_sintvar(b + tail, 0)
    hx.prove(r2[1] == n, "read_sintvar stops exactly after the written octets")
    hx.cover("len%d" % n)


def h_sint_sequence(hx, same):
    """two writes in a row with unrelated arguments: the second result depends on its own arguments only"""
    m1 = hx.int(8 if same else 5, "m1")
    m2 = m1 if same else hx.int(5, "m2")
    s1, s2 = hx.flag("neg1"), hx.flag("neg2")
    z1, z2 = hx.flag("nz1"), hx.flag("nz2")
    v1 = -m1 if s1 else m1
    v2 = -m2 if s2 else m2
    MBXML.write_sintvar(v1, negative_zero=z1)
    b = MBXML.write_sintvar(v2, negative_zero=z2)
    r = MBXML.read_sintvar(b, 0)
    neg2 = OR(v2 < 0, z2)
    hx.prove(AND(r[1] == len(b), abs(r[0]) == abs(v2), IFF(r[2] == -1, neg2)), "write_sintvar(v2, nz2) right after write_sintvar(v1, nz1): magnitude and sign are those of the second call")
    hx.cover("sequence")


def h_uint_sequence(hx):
    u1, u2 = hx.int(9, "u1"), hx.int(9, "u2")
    MBXML.write_uintvar(u1)
    b2 = MBXML.write_uintvar(u2)
    hx.prove(EQ(MBXML.read_uintvar(b2, 0), (u2, len(b2))), "write_uintvar(u2) right after write_uintvar(u1) reads back as u2")
    hx.cover("sequence")


def h_ufloat(hx, p):
    I = hx.int(32, "I")
    K = hx.int(7 * p, "K")
    hx.assume(I < (1 << (53 - 7 * p)))
    value = hx.dyadic(I * (128 ** p) + K, 7 * p)
    b = MBXML.write_ufloatvar(value, p)
    (back, idx) = MBXML.read_ufloatvar(b, 0)
    hx.prove(idx == len(b), "read_ufloatvar consumes exactly the written octets (p=%d)" % p)
    hx.prove(back == value, "read_ufloatvar(write_ufloatvar(x, %d)) == x for every x = I + K/128^%d" % (p, p))
    hx.cover("p%d-len%d" % (p, len(b)))


def h_sfloat(hx, p, negative):
    I = hx.int(31, "I")
    K = hx.int(7 * p, "K")
    n = I * (128 ** p) + K
    if negative:
        hx.assume(n >= 1)
        n = -n
    value = hx.dyadic(n, 7 * p)
    b = MBXML.write_sfloatvar(value, p)
    (back, idx) = MBXML.read_sfloatvar(b, 0)
    hx.prove(idx == len(b), "read_sfloatvar consumes exactly the written octets (p=%d)" % p)
    hx.prove(back == value, "read_sfloatvar(write_sfloatvar(x, %d)) == x for every %s x = +-(I + K/128^%d), zero integer part included" % (p, "negative" if negative else "non-negative", p))
    hx.cover("p%d" % p)


def h_sfloat_sequence(hx, p):
    """two signed-float writes in a row (small integer parts, both signs, zero integer part included): the second result depends on its own
    argument only (a memo keyed on the integer part would lose the sign of -0.x)"""
    vals = []
    for t in ("1", "2"):
        I = hx.int(2, "I" + t)
        K = hx.int(7 * p, "K" + t)
        n = I * (128 ** p) + K
        if hx.flag("neg" + t):
            hx.assume(n >= 1)
            n = -n
        vals.append(hx.dyadic(n, 7 * p))
    MBXML.write_sfloatvar(vals[0], p)
    b = MBXML.write_sfloatvar(vals[1], p)
    (back, idx) = MBXML.read_sfloatvar(b, 0)
    hx.prove(AND(idx == len(b), back == vals[1]), "write_sfloatvar(x2, %d) right after write_sfloatvar(x1, %d) reads back as x2 (integer parts 0..3, both signs)" % (p, p))
    (u, idx2) = MBXML.read_ufloatvar(MBXML.write_ufloatvar(abs(vals[1]), p), 0)
    hx.prove(u == abs(vals[1]), "write_ufloatvar(|x2|, %d) after the two signed writes reads back as |x2|" % p)
    hx.cover("sequence")


class SymDT(datetime):
    """a datetime whose six field properties are supplied by the harness (symbolic in the symbolic run)"""
    _f = None

    @property
    def year(self): return self._f[0]
    @property
    def month(self): return self._f[1]
    @property
    def day(self): return self._f[2]
    @property
    def hour(self): return self._f[3]
    @property
    def minute(self): return self._f[4]
    @property
    def second(self): return self._f[5]


def infotime_slices():
    """the six ba2int(bits[a:b]) slices of the INFO_TIME branch of MBXMLToken.as_xml, read from the current source"""
    src = textwrap.dedent(inspect.getsource(MBXMLToken.as_xml))
    tree = ast.parse(src)
    out = []
    for node in ast.walk(tree):
        if isinstance(node, ast.JoinedStr):
            sl = []
            for v in node.values:
                if isinstance(v, ast.FormattedValue) and isinstance(v.value, ast.Call) and getattr(v.value.func, "id", "") == "ba2int":
                    s = v.value.args[0].slice
                    lo = ast.literal_eval(s.lower) if s.lower is not None else None
                    hi = ast.literal_eval(s.upper) if s.upper is not None else None
                    sl.append((lo, hi))
            if len(sl) == 6:
                out = sl
    return out


def h_infotime(hx):
    y = hx.int(7, "y") + 2000
    mo, d, h, mi, s = hx.int(4, "mo"), hx.int(5, "d"), hx.int(5, "h"), hx.int(6, "mi"), hx.int(6, "s")
    hx.assume(AND(y <= 2099, mo >= 1, mo <= 12, d >= 1, d <= 31, h <= 23, mi <= 59, s <= 59))
    if hx.symbolic:
        dt = SymDT(2000, 1, 1)
        dt._f = (y, mo, d, h, mi, s)
    else:
        try:
            dt = datetime(y, mo, d, h, mi, s)
        except ValueError:
            dt = SymDT(2000, 1, 1)       # e.g. 31 February: not a calendar date but inside the field ranges the encoding covers
            dt._f = (y, mo, d, h, mi, s)
    b = MBXML.write_infotime(dt)
    hx.prove(len(b) == 5, "write_infotime yields 5 octets")
    sl = infotime_slices()
    hx.prove(len(sl) == 6, "found the six decoding slices in MBXMLToken.as_xml")
    bits = bytes_to_bits(b)
    for (lo, hi), want, name in zip(sl, (y, mo, d, h, mi, s), ("year", "month", "day", "hour", "minute", "second")):
        hx.prove(ba2int(bits[lo:hi]) == want, "info-time: %s decoded by the XML view's formula == the encoded field" % name)
    hx.cover("infotime")


def cases(tier, seed):
    out = [Case("uintvar", "h_uint", {}, covers=["len1", "len2", "len3", "len4", "len5"], budget_s=300, bounds="v symbolic over all 2^32 values, 2 symbolic trailing octets, 1 leading"),
           Case("sintvar-nonneg", "h_sint", dict(negative=False), covers=["len1", "len5"], budget_s=300, bounds="0 <= v <= 2^31-1, negative_zero flag symbolic"),
           Case("sintvar-neg", "h_sint", dict(negative=True), covers=["len1", "len5"], budget_s=300, bounds="-(2^31-1) <= v <= -1"),
           Case("infotime", "h_infotime", {}, covers=["infotime"], budget_s=120, bounds="six symbolic fields in range"),
           Case("write-sequence-sint-same", "h_sint_sequence", dict(same=True), covers=["sequence"], budget_s=600, opts=dict(max_paths=8000), bounds="same 8-bit magnitude twice, signs and negative_zero flags of both calls symbolic"),
           Case("write-sequence-sint-indep", "h_sint_sequence", dict(same=False), covers=["sequence"], budget_s=600, opts=dict(max_paths=8000), bounds="two independent 5-bit magnitudes, signs and negative_zero flags symbolic"),
           Case("write-sequence-uint", "h_uint_sequence", {}, covers=["sequence"], budget_s=600, opts=dict(max_paths=8000), bounds="two independent 9-bit unsigned values written back to back")]
    for p in (1, 2):
        out.append(Case("write-sequence-sfloat-p%d" % p, "h_sfloat_sequence", dict(p=p), covers=["sequence"], budget_s=600, opts=dict(max_paths=8000),
                        bounds="two signed floats x = +-(I + K/128^%d), I < 4, written back to back" % p))
    for p in (1, 2, 3):
        out.append(Case("ufloatvar-p%d" % p, "h_ufloat", dict(p=p), budget_s=600, opts=dict(max_paths=5000), bounds="I < 2^%d, K < 128^%d symbolic" % (min(32, 53 - 7 * p), p)))
        for neg in (False, True):
            out.append(Case("sfloatvar-p%d-%s" % (p, "neg" if neg else "pos"), "h_sfloat", dict(p=p, negative=neg), budget_s=600, opts=dict(max_paths=5000),
                            bounds="I < 2^31, K < 128^%d symbolic, sign %s" % (p, "-" if neg else "+")))
    return out
