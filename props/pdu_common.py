"""shared machinery of the PDU properties (C03, C04, C01): generic decode -> fields -> rebuild -> decode harness.

For a PDU class X, `decode(symbolic bits of the right length)` ranges over EVERY object the decoder can produce, i.e. over all
in-range field values of every format/opcode.  From such an object x the harness
  * re-serialises and re-parses (fixed point of decode-then-encode),
  * rebuilds the PDU THROUGH THE CONSTRUCTOR from x's field values (check fields left to the library to generate), serialises,
    parses again and compares every field - the 'PDU built from in-range field values survives encode-decode' clause.
"""
import enum
import inspect
from bitarray import bitarray
from vf.api import T, AND, OR, NOT, IMPLIES, IFF, EQ
from sxl.bits import Bit

from okdmr.dmrlib.etsi.layer2.pdu.csbk import CSBK
from okdmr.dmrlib.etsi.layer2.pdu.data_header import DataHeader
from okdmr.dmrlib.etsi.layer2.pdu.full_link_control import FullLinkControl
from okdmr.dmrlib.etsi.layer2.pdu.short_link_control import ShortLinkControl
from okdmr.dmrlib.etsi.layer2.pdu.pi_header import PIHeader
from okdmr.dmrlib.etsi.layer2.pdu.rate12_data import Rate12Data, Rate12DataTypes
from okdmr.dmrlib.etsi.layer2.pdu.rate34_data import Rate34Data, Rate34DataTypes
from okdmr.dmrlib.etsi.layer2.pdu.rate1_data import Rate1Data, Rate1DataTypes
from okdmr.dmrlib.etsi.layer3.pdu.udp_ipv4_compressed_header import UDPIPv4CompressedHeader

DOCUMENTED = (NotImplementedError, KeyError, ValueError, AssertionError)


def _typed(cls, types, name):
    t = getattr(types, name)
    return lambda bits: cls.from_bits_typed(bits, t)


class Kind:
    def __init__(self, cls, nbits, decode=None, outbits=None, alias=None, skip=(), check_attrs=(), label=None):
        self.cls, self.nbits = cls, nbits
        self.decode = decode or cls.from_bits
        self.outbits = nbits if outbits is None else outbits
        self.alias = alias or {}
        self.skip = set(skip)                 # constructor parameters left to their defaults (check fields: the library generates them)
        self.check_attrs = set(check_attrs)   # attributes that hold integrity indicators / regenerated check values
        self.label = label                    # attribute used to label path classes


KINDS = {
    "CSBK": Kind(CSBK, 96, alias={"manufacturers_feature_set_id": "feature_set"}, skip=("crc",), check_attrs=("crc",), label="csbko"),
    "DataHeader": Kind(DataHeader, 96, alias={"dpf": "data_packet_format"}, skip=("crc",), check_attrs=("crc", "crc_ok"), label="data_packet_format"),
    "FullLC96": Kind(FullLinkControl, 96, alias={"flco": "full_link_control_opcode", "fid": "feature_set_id"}, label="full_link_control_opcode"),
    "FullLC77": Kind(FullLinkControl, 77, alias={"flco": "full_link_control_opcode", "fid": "feature_set_id"}, label="full_link_control_opcode"),
    "ShortLC": Kind(ShortLinkControl, 36, skip=("crc_8bit",), check_attrs=("crc_8bit", "crc_ok"), label="slco"),
    "PIHeader": Kind(PIHeader, 96, skip=("crc",), check_attrs=("crc", "crc_ok")),
    "UDPIPv4-40": Kind(UDPIPv4CompressedHeader, 40, alias={"udp_source_port_id": "udp_source_port_original", "udp_destination_port_id": "udp_destination_port_original"}),
    "UDPIPv4-56": Kind(UDPIPv4CompressedHeader, 56, alias={"udp_source_port_id": "udp_source_port_original", "udp_destination_port_id": "udp_destination_port_original"}),
    "UDPIPv4-72": Kind(UDPIPv4CompressedHeader, 72, alias={"udp_source_port_id": "udp_source_port_original", "udp_destination_port_id": "udp_destination_port_original"}),
    "UDPIPv4-112": Kind(UDPIPv4CompressedHeader, 112, alias={"udp_source_port_id": "udp_source_port_original", "udp_destination_port_id": "udp_destination_port_original"}),
}
for _cls, _types, _n, _nm in ((Rate12Data, Rate12DataTypes, 96, "Rate12"), (Rate34Data, Rate34DataTypes, 144, "Rate34"), (Rate1Data, Rate1DataTypes, 192, "Rate1")):
    for _t in ("Unconfirmed", "Confirmed", "UnconfirmedLastBlock", "ConfirmedLastBlock"):
        KINDS["%s-%s" % (_nm, _t)] = Kind(_cls, _n, decode=_typed(_cls, _types, _t), skip=("crc9",), check_attrs=("crc9", "crc9_ok"))
    KINDS["%s-untyped" % _nm] = Kind(_cls, _n, skip=("crc9",), check_attrs=("crc9", "crc9_ok"))


def concrete_member(v):
    """the enum member a (possibly merged) value stands for on this path"""
    from sxl import runtime
    if v.__class__ is runtime.Choice:
        return v.force()
    return v


def feq(a, b):
    """field equality -> Bit | 0 | 1 (objects with as_bits compare by their bits)"""
    from sxl import runtime
    if a is None or b is None:
        if a.__class__ is runtime.Choice or b.__class__ is runtime.Choice:
            return T(runtime.is_(a, b))
        return 1 if (a is None and b is None) else 0
    if isinstance(a, (list, tuple)) and isinstance(b, (list, tuple)):
        return EQ(list(a), list(b)) if len(a) == len(b) else 0
    if hasattr(a, "as_bits") and not isinstance(a, enum.Enum) and a.__class__ is not runtime.Choice:
        if not hasattr(b, "as_bits"):
            return 0
        x, y = a.as_bits(), b.as_bits()
        return T(x == y) if len(x) == len(y) else 0
    if isinstance(a, bitarray) and isinstance(b, bitarray):
        return T(a == b) if len(a) == len(b) else 0
    r = a == b
    if r is NotImplemented:
        return 0
    return T(r)


def public_fields(x):
    return sorted(k for k in vars(x) if not k.startswith("_"))


def ctor_kwargs(kind, x):
    sig = inspect.signature(kind.cls.__init__)
    kw, unmapped = {}, []
    for name, p in list(sig.parameters.items())[1:]:
        if name in kind.skip:
            continue
        attr = kind.alias.get(name, name)
        if hasattr(x, attr):
            kw[name] = getattr(x, attr)
        else:
            unmapped.append(name)
    return kw, unmapped


def enum_or_int_params(kind):
    """constructor parameters annotated Union[<Enum class>, int] (read from the current source): [(name, enum class)]"""
    import typing
    try:
        sig = inspect.signature(kind.cls.__init__, eval_str=True)
    except Exception:
        sig = inspect.signature(kind.cls.__init__)
    out = []
    for name, p in list(sig.parameters.items())[1:]:
        args = typing.get_args(p.annotation)
        if int in args:
            for a in args:
                if isinstance(a, type) and issubclass(a, enum.Enum):
                    out.append((name, a))
    return out


def flag_params(kindname):
    """constructor parameters that are boolean flags (annotation mentions bool), read from the current source"""
    kind = KINDS[kindname]
    sig = inspect.signature(kind.cls.__init__)
    out = []
    for name, p in list(sig.parameters.items())[1:]:
        if name in kind.skip:
            continue
        if "bool" in str(p.annotation) or p.default is True or p.default is False:
            out.append(name)
    return out


def decode_roundtrip(hx, kindname, bits=None, known=None, part="fixed"):
    """part: 'fixed' (decode -> encode -> decode fixed point), 'ctor' (rebuild through the constructor), 'flag:<name>'.
    returns (status, decoded object, received bits)"""
    kind = KINDS[kindname]
    b = hx.ba(kind.nbits, "b") if bits is None else bits
    snap = b.copy()
    st, x = hx.guard(kind.decode, b)
    if st == "exc":
        hx.prove(isinstance(x, DOCUMENTED), "%s: decoding fails only with a documented error, got %s: %s" % (kindname, type(x).__name__, x))
        hx.cover("error:" + type(x).__name__)
        return st, x, snap
    hx.prove(x is not None, "%s: decoding yields an object, never nothing" % kindname)
    if x is None:
        return "none", None, snap
    hx.prove(b == snap, "%s: decoding leaves the bit buffer unchanged" % kindname)
    lab = concrete_member(getattr(x, kind.label)) if kind.label else None
    tag = getattr(lab, "name", "") if lab is not None else ""
    st1, y = hx.guard(x.as_bits)
    hx.prove(st1 == "ok", "%s %s: serialising a decoded object does not fail (%s)" % (kindname, tag, y if st1 == "exc" else ""))
    if st1 != "ok":
        return "noser", x, snap
    hx.prove(len(y) == kind.outbits, "%s %s: serialises to its fixed length %d" % (kindname, tag, kind.outbits))
    if part != "fixed":
        st2 = "skip"
    else:
        st2, z = hx.guard(kind.decode, y.copy())
        hx.prove(st2 == "ok", "%s %s: the serialisation of a decoded object decodes again" % (kindname, tag))
    if st2 == "ok":
        hx.prove(z.as_bits() == y, "%s %s: serialisation is a fixed point of decode-then-encode" % (kindname, tag))
        for f in public_fields(x):
            if f in kind.check_attrs:
                continue
            hx.prove(feq(getattr(x, f), getattr(z, f, None)), "%s %s: field %s unchanged by encode-decode" % (kindname, tag, f))
    # ---- the PDU built from these field values through the constructor
    kw, unmapped = ctor_kwargs(kind, x)
    if part == "ctor":
        st3, x2 = hx.guard(kind.cls, **kw)
        hx.prove(st3 == "ok", "%s %s: constructing from decoded field values does not fail (%s)" % (kindname, tag, x2 if st3 == "exc" else ""))
    else:
        st3 = "skip"
    if st3 == "ok":
        y2 = x2.as_bits()
        hx.prove(len(y2) == kind.outbits, "%s %s: a PDU built from fields serialises to %d bits" % (kindname, tag, kind.outbits))
        st4, f = hx.guard(kind.decode, y2.copy())
        hx.prove(st4 == "ok", "%s %s: a PDU built from fields decodes" % (kindname, tag))
        if st4 == "ok":
            hx.prove(f.as_bits() == y2, "%s %s: built-from-fields PDU re-serialises to equal bits" % (kindname, tag))
            for fld in public_fields(x):
                if fld in kind.check_attrs:
                    continue
                hx.prove(feq(getattr(x, fld), getattr(f, fld, None)), "%s %s: field %s survives build -> serialise -> parse" % (kindname, tag, fld),
                         known=(known or {}).get(fld))
        # ---- parameters declared Union[<Enum>, int]: passing the member instead of its integer value builds the same PDU
        for name, ecls in enum_or_int_params(kind):
            v = kw.get(name)
            if v is None or isinstance(v, (enum.Enum, bool)) or v.__class__.__name__ == "Choice":
                continue
            ste, member = hx.guard(ecls, v)
            if ste != "ok" or member is None:
                continue
            defined = T(member.value == v)                   # an undefined value maps to a reserved member, which cannot carry the original integer
            if defined.__class__ is not Bit and not defined:
                continue
            kwe = dict(kw)
            kwe[name] = member
            stc, xe = hx.guard(kind.cls, **kwe)
            hx.prove(IMPLIES(defined, stc == "ok"), "%s %s: constructing with %s given as a %s member does not fail (%s)" % (kindname, tag, name, ecls.__name__, xe if stc == "exc" else ""))
            if stc == "ok":
                hx.prove(IMPLIES(defined, xe.as_bits() == y2), "%s %s: %s given as a %s member or as its (defined) integer value serialises to the same bits" % (kindname, tag, name, ecls.__name__))
        # ---- flags the decoder never produces with both values (it may ignore them): if the ENCODER writes a flag into the
        #      bits, the decoder has to read the same value back
    if part.startswith("flag:"):
        for name, val in sorted(kw.items()):
            if name != part[5:]:
                continue
            outs = []
            for forced in (False, True):
                kwf = dict(kw)
                kwf[name] = forced
                stf, xf = hx.guard(kind.cls, **kwf)
                if stf != "ok":
                    outs = None
                    break
                stb, yf = hx.guard(xf.as_bits)
                if stb != "ok" or len(yf) != kind.outbits:
                    outs = None
                    break
                outs.append(yf)
            if not outs:
                continue
            differs = NOT(outs[0] == outs[1])
            if differs.__class__ is not Bit and not differs:
                continue                                   # the format does not carry this flag
            attr = kind.alias.get(name, name)
            for forced, yf in zip((False, True), outs):
                std, ff = hx.guard(kind.decode, yf.copy())
                hx.prove(std == "ok", "%s %s: PDU built with %s=%s decodes" % (kindname, tag, name, forced))
                if std == "ok":
                    hx.prove(IMPLIES(differs, feq(getattr(ff, attr, None), forced)),
                             "%s %s: flag %s=%s written by the encoder is read back by the decoder" % (kindname, tag, name, forced), known=(known or {}).get(attr))
    hx.cover("decoded:" + tag)
    return "ok", x, snap
