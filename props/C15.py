"""C15 — LRRP / MBXML documents re-serialise to the bytes they were parsed from.

Real code: MBXML.from_bytes / read_document / as_bytes / write_part / read_* / write_* / build_constants_table / get_implementation,
MBXMLDocumentIdentifier.resolve, MBXMLDocument.get_token / get_attribute, the LRRP / ARRP tables (read from the current source).
Documents are generated from the tables: every LRRP document id x every implemented element token with a symbolic value in canonical
form (shortest var-ints, one-septet fractions), ordered pairs of token types, several documents per buffer, inline constant tables,
and documents assembled through the token look-up API.
"""
from vf.api import Case, T, AND, OR, NOT, IMPLIES, IFF, EQ
from okdmr.dmrlib.motorola.mbxml import MBXML, MBXMLDocument, MBXMLDocumentIdentifier, MBXMLTokenType, GlobalToken, MBXMLToken
from okdmr.dmrlib.motorola.lrrp import LRRP

EXPLANATION = ("C15: token values (opaque octets, var-ints over their full range, floats I + K/128, coordinates, info-time octets, uint8) and inline constant-table octets are symbolic; "
               "document ids, token ids and lengths come from the tables of the current source.")
BOUNDS = {"quick": "22 LRRP document ids x element tokens (single-token documents; the complete token set for four ids, one per request/report x table/no-table family); all ordered pairs over one token per value type (signed floats and 3-d points in thorough) for a request and a report document id; "
                   "buffers of 2 documents (no table / inline table of 0 and 3 octets); documents assembled through get_token for every token without attributes",
          "thorough": "pairs for every LRRP document id; buffers of 3 documents"}
OUTSIDE = ("token sequences longer than 2 (the parsing loop carries only the index from token to token - argued, not proved); "
           "as_xml; opaque values longer than 3 octets except the 127/128 length boundary in thorough; ARRP documents (their tables are empty in this version)")
ASSUMPTIONS = ["canonical form as in the property: shortest var-ints, one-septet fractions; an opaque element with attributes carries at least one value octet (the writer omits the length of an empty value)"]

IMPLEMENTED = (GlobalToken.OPAQUE_I, GlobalToken.INFO_TIME, GlobalToken.UINT8, GlobalToken.NO_VALUE, GlobalToken.UFLOATVAR, GlobalToken.SFLOATVAR, GlobalToken.UINTVAR,
               GlobalToken.CIRCLE_2D, GlobalToken.POINT_2D, GlobalToken.POINT_3D)


def lrrp_docids():
    return [d for d in MBXMLDocumentIdentifier if d.name.startswith("LRRP")]


def elements_of(docid):
    cfg = LRRP.get_configuration(docid)
    return {tid: t for tid, t in cfg[MBXMLTokenType.ELEMENT_TOKEN].items() if t.token_type in IMPLEMENTED}


def ufloat(hx, name, signed=False):
    I = hx.int(7 if signed else 14, name + "_I")
    K = hx.int(7, name + "_K")
    n = I * 128 + K
    if signed and hx.flag(name + "_neg"):
        hx.assume(n >= 1)
        n = -n
    return hx.dyadic(n, 7)


def token_value(hx, cfg, tid, name):
    """(canonical bytes of the token incl. its id, expected value after parsing, attribute values)"""
    t = cfg[tid]
    tt = t.token_type
    idb = bytes([tid])
    if tt is GlobalToken.OPAQUE_I:
        if t.length:
            v = hx.bytes(t.length, name)
            return idb + v, v, []
        if t.length == 0:
            return idb, b"", []
        if len(t.attributes):
            attrs = [hx.int(14, "%s_a%d" % (name, i)) for i in range(len(t.attributes))]
            v = hx.bytes(2, name)
            ab = b""
            for a in attrs:
                ab = ab + MBXML.write_uintvar(a)
            return idb + ab + bytes([2]) + v, v, attrs
        v = hx.bytes(3, name)
        return idb + bytes([3]) + v, v, []
    if tt is GlobalToken.INFO_TIME:
        v = hx.bytes(5, name)
        return idb + v, v, []
    if tt is GlobalToken.UINT8:
        v = hx.int(8, name)
        return idb + bytes([v]), v, []
    if tt is GlobalToken.NO_VALUE:
        return idb, None, []
    if tt is GlobalToken.UINTVAR:
        v = hx.int(21, name)
        return idb + MBXML.write_uintvar(v), v, []
    if tt is GlobalToken.UFLOATVAR:
        v = ufloat(hx, name)
        return idb + MBXML.write_ufloatvar(v, 1), v, []
    if tt is GlobalToken.SFLOATVAR:
        v = ufloat(hx, name, signed=True)
        return idb + MBXML.write_sfloatvar(v, 1), v, []
    if tt is GlobalToken.POINT_2D:
        la, lo = hx.bytes(4, name + "_lat"), hx.bytes(4, name + "_lon")
        return idb + la + lo, (la, lo), []
    if tt is GlobalToken.CIRCLE_2D:
        la, lo = hx.bytes(4, name + "_lat"), hx.bytes(4, name + "_lon")
        r = ufloat(hx, name + "_r")
        return idb + la + lo + MBXML.write_ufloatvar(r, 1), (la, lo, r), []
    if tt is GlobalToken.POINT_3D:
        la, lo = hx.bytes(4, name + "_lat"), hx.bytes(4, name + "_lon")
        alt = ufloat(hx, name + "_alt", signed=True)
        return idb + la + lo + MBXML.write_sfloatvar(alt, 1), (la, lo, alt), []
    raise KeyError(tt)


def value_equal(a, b):
    if isinstance(a, tuple) and isinstance(b, tuple):
        return AND(len(a) == len(b), *[value_equal(x, y) for x, y in zip(a, b)]) if len(a) == len(b) else 0
    if a is None or b is None:
        return 1 if (a is None and b is None) else 0
    return T(a == b)


def wrap(docid, body, table=None):
    did = docid.value[0]
    ncdt = docid.value[1]
    inner = body
    if not ncdt:
        tb = table if table is not None else b""
        inner = MBXML.write_uintvar(len(tb)) + tb + body
    return bytes([did]) + MBXML.write_uintvar(len(inner)) + inner


def check_docs(hx, x, expected, tag):
    """expected: list of (docid, [(token id, value, attrs)], table or None, document bytes)"""
    st, docs = hx.guard(MBXML.from_bytes, x)
    hx.prove(st == "ok", "%s: parsing terminates without error (%s: %s)" % (tag, type(docs).__name__ if st == "exc" else "", docs if st == "exc" else ""))
    if st != "ok":
        return
    hx.prove(len(docs) == len(expected), "%s: %d document(s) in the buffer (got %d)" % (tag, len(expected), len(docs)))
    if len(docs) != len(expected):
        return
    for i, (doc, (docid, toks, table, xb)) in enumerate(zip(docs, expected)):
        hx.prove(doc.id is docid, "%s: document %d has the id it was written with" % (tag, i))
        hx.prove(len(doc.parts) == len(toks), "%s: document %d has %d tokens (got %d)" % (tag, i, len(toks), len(doc.parts)))
        if len(doc.parts) == len(toks):
            for part, (tid, val, attrs) in zip(doc.parts, toks):
                hx.prove(part.token_id == tid, "%s: token id" % tag)
                hx.prove(value_equal(part.value, val), "%s: token 0x%02x value as written" % (tag, tid))
                for a, want in zip([a for a in part.attributes if isinstance(a, MBXMLToken)], attrs):
                    hx.prove(a.value == want, "%s: attribute value as written" % tag)
        if table is not None:
            hx.prove(doc.constants_table == table, "%s: inline constant table as written" % tag)
        st2, y = hx.guard(MBXML.as_bytes, doc)
        hx.prove(st2 == "ok", "%s: re-serialising does not fail (%s)" % (tag, y if st2 == "exc" else ""))
        if st2 == "ok":
            hx.prove(y == xb, "%s: document %d re-serialises to the identical bytes" % (tag, i))
    total = 0
    for (_, _, _, xb) in expected:
        total += len(xb)
    hx.prove(total == len(x), "%s: the announced document lengths account for the whole buffer" % tag)


def h_single(hx, docname, tid):
    docid = getattr(MBXMLDocumentIdentifier, docname)
    cfg = elements_of(docid)
    tb, val, attrs = token_value(hx, cfg, tid, "v")
    lens = [0, 3]
    if not docid.value[1] and tid == 0x22:
        # an inline table as long as the document type's standard table, symbolic content: the standard table itself is one of its values
        # (a parser that treats an inline table equal to the standard one differently shows here)
        st_, std = hx.guard(MBXML.build_constants_table, docid)
        if st_ == "ok" and len(std) not in lens:
            lens.append(len(std))
    table = None if docid.value[1] else hx.bytes(hx.pick("tlen", lens), "cdt")
    x = wrap(docid, tb, table)
    check_docs(hx, x, [(docid, [(tid, val, attrs)], table, x)], "%s, token 0x%02x" % (docname, tid))
    hx.cover("single")


def h_pair(hx, docname, t1, t2):
    docid = getattr(MBXMLDocumentIdentifier, docname)
    cfg = elements_of(docid)
    b1, v1, a1 = token_value(hx, cfg, t1, "v")
    b2, v2, a2 = token_value(hx, cfg, t2, "w")
    x = wrap(docid, b1 + b2)
    check_docs(hx, x, [(docid, [(t1, v1, a1), (t2, v2, a2)], None, x)], "%s, tokens 0x%02x 0x%02x" % (docname, t1, t2))
    hx.cover("pair")


def h_multi(hx, names, tlen, empty=None):
    exp = []
    buf = b""
    for i, docname in enumerate(names):
        docid = getattr(MBXMLDocumentIdentifier, docname)
        cfg = elements_of(docid)
        tids = [t for t in (0x22, 0x31 if 0x31 in cfg else 0x36) if t in cfg]
        if empty is not None and i in empty:
            tids = []                      # a document without tokens (sequences of 0..n tokens)
        body = b""
        toks = []
        for j, tid in enumerate(tids):
            tb, val, attrs = token_value(hx, cfg, tid, "d%d_t%d" % (i, j))
            body = body + tb
            toks.append((tid, val, attrs))
        table = None if docid.value[1] else hx.bytes(tlen, "cdt%d" % i)
        xb = wrap(docid, body, table)
        exp.append((docid, toks, table, xb))
        buf = buf + xb
    check_docs(hx, buf, exp, "buffer of %d documents (%s)" % (len(names), ", ".join(names)))
    hx.cover("multi")


def h_inherit(hx):
    """second document announces CDT_LEN = 1: 'use the constant table of the previous document' (MBXML 2.11)"""
    d1 = MBXMLDocumentIdentifier.LRRP_ImmediateLocationRequest
    d2 = MBXMLDocumentIdentifier.LRRP_ImmediateLocationReport
    table = hx.bytes(3, "cdt")
    c1, c2 = elements_of(d1), elements_of(d2)
    t1, v1, _ = token_value(hx, c1, 0x22, "a")
    t2, v2, _ = token_value(hx, c2, 0x22, "b")
    x1 = wrap(d1, t1, table)
    inner = bytes([1]) + t2
    x2 = bytes([d2.value[0]]) + MBXML.write_uintvar(len(inner)) + inner
    st, docs = hx.guard(MBXML.from_bytes, x1 + x2)
    known = {"C15-inherited-constant-table-not-recognised": True}
    hx.prove(st == "ok" and len(docs) == 2, "inherited table: two documents are parsed", known=known)
    if st == "ok" and len(docs) == 2:
        hx.prove(docs[1].constants_table == table, "inherited table: the second document uses the first one's constant table", known=known)
        hx.prove(len(docs[1].parts) == 1 and docs[1].parts[0].token_id == 0x22 and value_equal(docs[1].parts[0].value, v2), "inherited table: the second document's token is parsed as written", known=known)
        st2, y = hx.guard(MBXML.as_bytes, docs[1])
        hx.prove(st2 == "ok" and y == x2, "inherited table: the second document re-serialises to the identical bytes", known=known)
    hx.cover("inherit")


def h_api(hx, docname, tid, is_request):
    """a document assembled from tokens obtained through the look-up API parses back into the same token ids and values"""
    docid = getattr(MBXMLDocumentIdentifier, docname)
    cfg = elements_of(docid)
    t = cfg[tid]
    _tb, val, attrs = token_value(hx, cfg, tid, "v")
    # "obtained through the token lookup API" in a process that has parsed other documents before: a document of the opposite kind
    # (request <-> report) is parsed first; look-ups must not depend on it
    other = MBXMLDocumentIdentifier.LRRP_ImmediateLocationReport_NCDT if is_request else MBXMLDocumentIdentifier.LRRP_TriggeredLocationRequest_NCDT
    ocfg = elements_of(other)
    ob, _ov, _oa = token_value(hx, ocfg, 0x22, "prior")
    hx.guard(MBXML.from_bytes, wrap(other, ob))
    doc = LRRP(document_id=docid)
    st, tok = hx.guard(doc.get_token, tid, val, {}, is_request)
    hx.prove(st == "ok", "%s: get_token(0x%02x) finds the token (%s)" % (docname, tid, tok if st == "exc" else ""))
    if st != "ok":
        return
    doc.parts.append(tok)
    x = MBXML.as_bytes(doc)
    check_docs(hx, x, [(docid, [(tid, val, [])], None, x)], "%s assembled through get_token(0x%02x)" % (docname, tid))
    # the same token looked up twice, with two independent values, in a second document: each look-up yields its own token
    if t.token_type in (GlobalToken.UFLOATVAR, GlobalToken.SFLOATVAR, GlobalToken.CIRCLE_2D, GlobalToken.POINT_3D):
        hx.cover("api")           # float-valued tokens: two independent symbolic floats per document square an already long case (measured > 300 s); the look-up path is the same
        return
    _tb2, val2, _a2 = token_value(hx, cfg, tid, "w")
    doc2 = LRRP(document_id=docid)
    st1, k1 = hx.guard(doc2.get_token, tid, val, {}, is_request)
    st2, k2 = hx.guard(doc2.get_token, tid, val2, {}, is_request)
    if st1 == "ok" and st2 == "ok":
        doc2.parts.append(k1)
        doc2.parts.append(k2)
        x2 = MBXML.as_bytes(doc2)
        check_docs(hx, x2, [(docid, [(tid, val, []), (tid, val2, [])], None, x2)], "%s assembled through two look-ups of 0x%02x with independent values" % (docname, tid))
        x1b = MBXML.as_bytes(doc)
        hx.prove(x1b == x, "%s: the document assembled earlier still serialises to the same bytes after further look-ups" % docname)
    hx.cover("api")


def one_per_type(cfg):
    seen, out = set(), []
    for tid in sorted(cfg):
        t = cfg[tid]
        key = (t.token_type, bool(t.length), t.length == 0, bool(t.attributes))
        if key not in seen:
            seen.add(key)
            out.append(tid)
    return out


def cases(tier, seed):
    out = []
    full = {"LRRP_TriggeredLocationRequest_NCDT", "LRRP_ImmediateLocationRequest", "LRRP_ImmediateLocationReport_NCDT", "LRRP_TriggeredLocationReport"}
    for d in lrrp_docids():
        tids = sorted(elements_of(d))
        if tier == "quick" and d.name not in full:
            # every document id is exercised; the complete token set is run for one id per (request / report) x (with / without table) family,
            # which share their token tables
            tids = [t for t in tids if t in (0x22, 0x23, 0x31, 0x36, 0x4A, 0x6B)]
        for tid in tids:
            out.append(Case("single-%s-%02x" % (d.name, tid), "h_single", dict(docname=d.name, tid=tid), covers=["single"], budget_s=300, opts=dict(max_paths=3000, max_violations=6),
                            bounds="document id 0x%02x, one token 0x%02x with a symbolic canonical value%s" % (d.value[0], tid, "" if d.value[1] else ", inline constant table of 0 or 3 symbolic octets")))
    pair_docs = ["LRRP_TriggeredLocationRequest_NCDT", "LRRP_ImmediateLocationReport_NCDT"] if tier == "quick" else [d.name for d in lrrp_docids() if d.value[1]]
    for dn in pair_docs:
        types = one_per_type(elements_of(getattr(MBXMLDocumentIdentifier, dn)))
        cfg_ = elements_of(getattr(MBXMLDocumentIdentifier, dn))
        heavy = {t for t in types if cfg_[t].token_type in (GlobalToken.POINT_3D, GlobalToken.SFLOATVAR, GlobalToken.CIRCLE_2D)}
        if tier == "quick" or dn not in ("LRRP_TriggeredLocationRequest_NCDT", "LRRP_ImmediateLocationReport_NCDT"):
            # float-carrying token types in pairs: thorough tier, for the two document ids that own the complete token tables
            types = [t for t in types if t not in heavy]
        for a in types:
            for b in types:
                if a in heavy and b in heavy:
                    continue          # two symbolic floats in one document: measured > 30 min for the full product, outside the claim
                out.append(Case("pair-%s-%02x-%02x" % (dn, a, b), "h_pair", dict(docname=dn, t1=a, t2=b), covers=["pair"], budget_s=(300 if tier == "quick" else 2400), opts=dict(max_paths=(6000 if tier == "quick" else 60000), max_violations=6),
                                bounds="two tokens (one per value type) with symbolic canonical values"))
    multis = [(["LRRP_ImmediateLocationRequest_NCDT", "LRRP_ImmediateLocationReport_NCDT"], 0), (["LRRP_TriggeredLocationRequest", "LRRP_TriggeredLocationAnswer_NCDT"], 3),
              (["LRRP_ImmediateLocationReport", "LRRP_ImmediateLocationReport"], 0)]
    if tier == "thorough":
        multis.append((["LRRP_ImmediateLocationRequest_NCDT", "LRRP_ImmediateLocationReport_NCDT", "LRRP_TriggeredLocationStopRequest_NCDT"], 0))
    for names, tl in multis:
        out.append(Case("multi-%s-t%d" % ("+".join(n.replace("LRRP_", "") for n in names), tl), "h_multi", dict(names=names, tlen=tl), covers=["multi"], budget_s=600,
                        opts=dict(max_paths=6000, max_violations=6), bounds="%d documents in one buffer, inline tables of %d octets where the id has a table" % (len(names), tl)))
    for names, tl in multis[:2]:
        for empty in ([0], [len(names) - 1], list(range(len(names)))):
            out.append(Case("multi-%s-t%d-empty%s" % ("+".join(n.replace("LRRP_", "") for n in names), tl, "".join(str(e) for e in empty)), "h_multi", dict(names=names, tlen=tl, empty=empty),
                            covers=["multi"], budget_s=600, opts=dict(max_paths=6000, max_violations=6),
                            bounds="%d documents in one buffer, document(s) %s without any token" % (len(names), empty)))
    out.append(Case("single-empty-document", "h_multi", dict(names=["LRRP_ImmediateLocationRequest_NCDT"], tlen=0, empty=[0]), covers=["multi"], budget_s=120, bounds="one document without tokens"))
    out.append(Case("inherited-table", "h_inherit", {}, covers=["inherit"], budget_s=300, bounds="two documents, the second with CDT_LEN = 1; table and token values symbolic"))
    for dn, req in (("LRRP_TriggeredLocationRequest_NCDT", True), ("LRRP_ImmediateLocationReport_NCDT", False)):
        cfg = elements_of(getattr(MBXMLDocumentIdentifier, dn))
        for tid in sorted(cfg):
            if cfg[tid].attributes:
                continue
            out.append(Case("api-%s-%02x" % (dn, tid), "h_api", dict(docname=dn, tid=tid, is_request=req), covers=["api"], budget_s=300, opts=dict(max_paths=3000, max_violations=6),
                            bounds="document assembled through get_token, symbolic value"))
    return out
