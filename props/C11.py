"""C11 — Reed-Solomon (12,9): generated words are codewords of distance 4, field multiplication is GF(2^8).

Real code: ReedSolomon1294.log_multiply / generate / check / xor_bytes.
Oracle: carry-less 8x8 multiply reduced by x^8+x^4+x^3+x^2+1 built on symbolic bits in this file; syndromes by Horner evaluation at alpha^1..alpha^3 (alpha = 2).
"""
from sxl.bits import bxor, band
from sxl.ints import SInt
from vf.api import Case, T, AND, OR, NOT, IMPLIES, IFF, EQ
from okdmr.dmrlib.etsi.fec.reed_solomon_12_9_4 import ReedSolomon1294 as RS

EXPLANATION = ("C11: multiplier operands, message octets, mask octets, received word and error symbols are symbolic. generate()'s constant-operand "
               "multiplications are tabulated exhaustively over the symbolic octet (exact) so parity stays GF(2)-linear.")
BOUNDS = {"quick": "complete: all 65,536 multiplier pairs; all 2^72 messages x all 2^24 masks; all 2^96 received words; every corruption of 1..3 symbols (symbolic positions and values); 2-safety distance form: any two generated words agreeing in 9 of the 12 octets (all 220 position sets) are equal",
          "thorough": "same plus the standard's masks as constants"}
OUTSIDE = "error correction (not implemented by the library)"
ASSUMPTIONS = ["field: GF(2^8) modulo x^8+x^4+x^3+x^2+1, alpha = 2, generator roots alpha^1..alpha^3 (ETSI B.3.6)"]
TAB = dict(tabulate_calls=["ReedSolomon1294.log_multiply"], solver_timeout_ms=300000)


def ref_mul(a, b):
    """carry-less multiply mod x^8+x^4+x^3+x^2+1"""
    A = SInt.of(a).ubits(8)
    B = SInt.of(b).ubits(8)
    prod = [0] * 15
    for i in range(8):
        for j in range(8):
            prod[i + j] = bxor(prod[i + j], band(A[i], B[j]))
    for d in range(14, 7, -1):
        c = prod[d]
        prod[d] = 0
        for k in (0, 2, 3, 4):
            prod[d - 8 + k] = bxor(prod[d - 8 + k], c)
    return SInt.from_bits(prod[:8])


def syndrome(c, j):
    alpha_j = [2, 4, 8][j - 1]
    s = 0
    for sym in c:
        s = ref_mul(s, alpha_j)
        s = s ^ sym
    return s


def h_mul(hx):
    a, b = hx.int(8, "a"), hx.int(8, "b")
    hx.prove(RS.log_multiply(a, b) == ref_mul(a, b), "log_multiply(a, b) == GF(2^8) product for all 65,536 pairs")
    hx.prove(RS.log_multiply(a, b) == RS.log_multiply(b, a), "log_multiply is commutative")
    hx.cover("mul")


def h_gen(hx, mask):
    m = hx.bytes(9, "m")
    k = hx.bytes(3, "k") if mask is None else bytes.fromhex(mask)
    cw = RS.generate(m, k)
    hx.prove(len(cw) == 12, "generate returns 12 octets")
    hx.prove(cw[:9] == m, "generate is systematic (message followed by three parity octets)")
    c = list(cw[:9]) + [x ^ y for x, y in zip(list(cw[9:]), list(k))]
    for j in (1, 2, 3):
        hx.prove(syndrome(c, j) == 0, "with the mask removed the syndrome at alpha^%d is zero" % j)
    hx.prove(RS.check(cw, k), "check accepts every generated word under the same mask")
    if mask is None:
        hx.prove(RS.generate(m) == RS.generate(m, b"\x00\x00\x00"), "default mask is all-zero")
    hx.cover("gen")


def h_member(hx):
    w = hx.bytes(12, "w")
    k = hx.bytes(3, "k")
    c = list(w[:9]) + [x ^ y for x, y in zip(list(w[9:]), list(k))]
    zero = AND(*[syndrome(c, j) == 0 for j in (1, 2, 3)])
    chk = T(RS.check(w, k))
    hx.prove(IFF(chk, RS.generate(w[:9], k) == w), "check(w) <=> w == generate(w[:9]) for every 12-octet word")
    hx.prove(IFF(chk, zero), "check(w) <=> all three syndromes of the unmasked word are zero (exactly the multiples of the generator polynomial)")
    # a second check of another word under another mask, right after: verdicts do not depend on earlier calls
    w2, k2 = hx.bytes(12, "w2"), hx.bytes(3, "k2")
    c2 = list(w2[:9]) + [x ^ y for x, y in zip(list(w2[9:]), list(k2))]
    zero2 = AND(*[syndrome(c2, j) == 0 for j in (1, 2, 3)])
    hx.prove(IFF(RS.check(w2, k2), zero2), "check(w2, k2) right after check(w, k): accepts exactly the codewords under ITS mask")
    hx.prove(IFF(RS.check(w, k), zero), "check(w, k) again: same verdict")
    hx.cover("member")


def h_detect(hx):
    m = hx.bytes(9, "m")
    k = hx.bytes(3, "k")
    cw = RS.generate(m, k)
    e = hx.bytes(12, "e")
    cnt = 0
    for x in e:
        cnt = cnt + SInt.of(T(x != 0))
    hx.assume(AND(cnt >= 1, cnt <= 3))
    bad = bytes([x ^ y for x, y in zip(list(cw), list(e))])
    hx.prove(NOT(RS.check(bad, k)), "corrupting any one to three octets of a generated word is detected")
    hx.cover("detect")


def h_distance(hx, agree):
    """2-safety form of 'distance 4': two codewords that agree in the 9 positions `agree` (i.e. differ in at most 3) come from the same message.
    The choice of the 9 positions is a declared split (C(12,9) = 220 cases); messages are symbolic."""
    m1, m2 = hx.bytes(9, "m"), hx.bytes(9, "n")
    c1, c2 = RS.generate(m1), RS.generate(m2)
    for i in agree:
        hx.assume(c1[i] == c2[i])
    hx.prove(m1 == m2, "two generated words that agree in octets %s (differ in at most 3 octets) come from the same message" % (list(agree),))
    hx.cover("distance")


def cases(tier, seed):
    out = [Case("multiply", "h_mul", {}, covers=["mul"], budget_s=600, opts=dict(solver_timeout_ms=300000), bounds="two symbolic octets"),
           Case("generate-symbolic-mask", "h_gen", dict(mask=None), covers=["gen"], budget_s=600, opts=TAB, bounds="9 symbolic message octets, 3 symbolic mask octets"),
           Case("membership", "h_member", {}, covers=["member"], budget_s=600, opts=TAB, bounds="12 symbolic word octets, 3 symbolic mask octets"),
           Case("detect-1to3", "h_detect", {}, covers=["detect"], budget_s=900, opts=TAB, bounds="symbolic message and mask, symbolic 12-octet error with 1..3 non-zero symbols")]
    if tier == "thorough":
        for mk in ("969696", "999999", "000000"):
            out.append(Case("generate-mask-" + mk, "h_gen", dict(mask=mk), covers=["gen"], budget_s=600, opts=TAB, bounds="9 symbolic message octets, mask 0x" + mk))
    if True:
        import itertools
        for agree in itertools.combinations(range(12), 9):
            out.append(Case("distance-2safety-" + "".join("%x" % i for i in agree), "h_distance", dict(agree=agree), covers=["distance"], budget_s=600, opts=TAB,
                            bounds="two symbolic 9-octet messages, codewords equal in 9 chosen positions"))
    return out
