"""C01 — a burst the library assembles is parsed back identically, and re-assembles.

Real code: Burst.__init__ / as_bits / as_bytes / from_bits / from_bytes / interleave / deinterleave / extract_data, SlotType,
EmbeddedSignalling, SyncPatterns.resolve_bytes, BPTC19696.encode / deinterleave_data_bits / repair_if_necessary,
Trellis34.encode / decode, every PDU's from_bits / as_bits, Golay / QR / Hamming / CRC underneath.

Payloads: every object the PDU decoders can produce (decode of fully symbolic bits, see props/pdu_common.py), i.e. every in-range
field combination of every supported kind; colour code symbolic; data sync pattern: declared 4-way split.
"""
from bitarray import bitarray
from bitarray.util import ba2int, int2ba
from vf.api import Case, T, AND, OR, NOT, IMPLIES, IFF, EQ
from props.pdu_common import KINDS, DOCUMENTED, feq, public_fields, concrete_member
from okdmr.dmrlib.etsi.layer2.burst import Burst
from okdmr.dmrlib.etsi.layer2.elements.burst_types import BurstTypes
from okdmr.dmrlib.etsi.layer2.elements.data_types import DataTypes
from okdmr.dmrlib.etsi.layer2.elements.sync_patterns import SyncPatterns
from okdmr.dmrlib.etsi.layer2.elements.lcss import LCSS
from okdmr.dmrlib.etsi.layer2.pdu.slot_type import SlotType
from okdmr.dmrlib.etsi.layer2.pdu.embedded_signalling import EmbeddedSignalling

EXPLANATION = ("C01: the payload object ranges over everything the PDU decoder produces from symbolic bits (all field values), colour code is symbolic, "
               "the burst is assembled the way TransmissionGenerator does, serialised, parsed and serialised again. Voice bursts: all 216 vocoder bits, "
               "the 32 embedded bits and (colour code, PI, LCSS) symbolic.")
BOUNDS = {"quick": "all payloads of kinds CSBK, DataHeader, voice LC header, terminator with LC, PI header, rate 1/2, rate 3/4, rate 1 x colour codes 0..15 with the BS-sourced data sync, "
                   "PI header and rate 1/2 also with the other three data sync patterns; "
                   "all 2^216 vocoder payloads x 4 voice sync patterns; all (colour code, PI, LCSS, 32 embedded bits) x all vocoder payloads",
          "thorough": "the full product kinds x 4 data sync patterns; voice as quick"}
OUTSIDE = "bursts whose slot type says Reserved / Idle / MBC / USBD (extract_data returns None: not a supported payload)"
ASSUMPTIONS = ["a burst is assembled as the library's own generator does: Burst(burst_type=DataAndControl), then data / slot_type / sync_or_embedded_signalling / has_emb are set"]

DATA_SYNCS = ["BsSourcedData", "MsSourcedData", "Tdma1Data", "Tdma2Data"]
VOICE_SYNCS = ["BsSourcedVoice", "MsSourcedVoice", "Tdma1Voice", "Tdma2Voice"]
# burst kind -> (payload kind in pdu_common, slot data type)
BURST_KINDS = {
    "CSBK": ("CSBK", "CSBK"),
    "DataHeader": ("DataHeader", "DataHeader"),
    "VoiceLCHeader": ("FullLC96", "VoiceLCHeader"),
    "TerminatorWithLC": ("FullLC96", "TerminatorWithLC"),
    "PIHeader": ("PIHeader", "PIHeader"),
    "Rate12Data": ("Rate12-untyped", "Rate12Data"),
    "Rate34Data": ("Rate34-untyped", "Rate34Data"),
    "Rate1Data": ("Rate1-untyped", "Rate1Data"),
}


def h_data_burst(hx, kind, sync):
    pk, dtname = BURST_KINDS[kind]
    k = KINDS[pk]
    dt = getattr(DataTypes, dtname)
    raw = hx.ba(k.nbits, "b")
    st, x = hx.guard(k.decode, raw)
    if st == "exc":
        hx.cover("undecodable-payload")
        return                                     # not a payload object; C03 deals with which errors are acceptable
    cc = hx.int(4, "cc")
    burst = Burst(burst_type=BurstTypes.DataAndControl)
    burst.has_emb = False
    burst.sync_or_embedded_signalling = getattr(SyncPatterns, sync)
    burst.slot_type = SlotType(colour_code=cc, data_type=dt)
    burst.data = x
    st0, b0 = hx.guard(burst.as_bits)
    tag = ""
    if k.label:
        tag = getattr(concrete_member(getattr(x, k.label)), "name", "")
    hx.prove(st0 == "ok", "%s %s: assembling the burst does not fail (%s)" % (kind, tag, b0 if st0 == "exc" else ""))
    if st0 != "ok":
        return
    hx.prove(len(b0) == 264, "%s %s: 264 bits" % (kind, tag))
    by = burst.as_bytes()
    hx.prove(len(by) == 33, "%s %s: 33 bytes" % (kind, tag))
    st1, p = hx.guard(Burst.from_bits, b0.copy(), BurstTypes.DataAndControl)
    hx.prove(st1 == "ok", "%s %s: the assembled burst parses (%s)" % (kind, tag, p if st1 == "exc" else ""))
    if st1 != "ok":
        return
    hx.prove(p.data_type == dt, "%s %s: parsed data type" % (kind, tag))
    hx.prove(p.colour_code == cc, "%s %s: parsed colour code (all 16 values)" % (kind, tag))
    hx.prove(p.sync_or_embedded_signalling == getattr(SyncPatterns, sync), "%s %s: parsed sync pattern" % (kind, tag))
    hx.prove(p.slot_type.fec_parity_ok, "%s %s: slot type parity ok" % (kind, tag))
    hx.prove(p.data is not None, "%s %s: payload extracted" % (kind, tag))
    if p.data is not None:
        hx.prove(p.data.as_bits() == x.as_bits(), "%s %s: parsed payload serialises to the payload bits that were sent" % (kind, tag))
        for f in public_fields(x):
            if f in k.check_attrs and f.endswith("_ok"):
                continue                   # an indicator about the RECEIVED check field, not a payload field (C04)
            hx.prove(feq(getattr(x, f), getattr(p.data, f, None)), "%s %s: payload field %s equal after parse" % (kind, tag, f))
    again = p.as_bits()
    hx.prove(again == b0, "%s %s: serialising the parsed burst yields the identical 264 bits" % (kind, tag))
    hx.prove(p.as_bytes() == by, "%s %s: ... and the identical 33 bytes" % (kind, tag))
    p2 = Burst.from_bytes(by, BurstTypes.DataAndControl)
    hx.prove(p2.as_bits() == b0, "%s %s: from_bytes(as_bytes()) round trip" % (kind, tag))
    hx.cover("burst:" + tag)


def h_voice_sync(hx, sync):
    voc = hx.ba(216, "v")
    center = getattr(SyncPatterns, sync).as_bits()
    x = voc[:108] + center + voc[108:]
    snap = x.copy()
    p = Burst.from_bits(x, BurstTypes.Vocoder)
    hx.prove(p.as_bits() == snap, "voice burst around %s: parse -> serialise is bit-for-bit identical (all 2^216 vocoder payloads)" % sync)
    hx.prove(AND(p.is_vocoder, p.is_voice_superframe_start), "voice burst around %s is recognised as the start of a voice superframe" % sync)
    hx.prove(p.voice_bits == voc, "voice burst around %s: vocoder bits extracted unchanged" % sync)
    hx.prove(x == snap, "parsing leaves the received bits unchanged")
    hx.cover("voice-sync")


def h_voice_emb(hx, cc):
    # colour code, PI and LCSS are a declared split (128 EMB words, all of them), so that the 16 EMB bits are concrete on each path and a
    # decision that depends on the whole 48-bit centre (e.g. a distance to the SYNC patterns) stays a question about the 32 embedded bits
    voc = hx.ba(216, "v")
    pi, lcss = hx.pick("pi", [0, 1]), hx.pick("lcss", [0, 1, 2, 3])
    emb = EmbeddedSignalling(colour_code=cc, preemption_and_power_control_indicator=pi, link_control_start_stop=lcss).as_bits()
    e32 = hx.ba(32, "e")
    x = voc[:108] + emb[:8] + e32 + emb[8:] + voc[108:]
    snap = x.copy()
    st, p = hx.guard(Burst.from_bits, x, BurstTypes.Vocoder)
    hx.prove(st == "ok", "voice burst around valid EMB (cc %d, PI %d, LCSS %d) and any 32 embedded bits parses (%s: %s)" % (cc, pi, lcss, type(p).__name__ if st == "exc" else "", p if st == "exc" else ""))
    if st != "ok":
        return
    hx.prove(p.as_bits() == snap, "voice burst around valid EMB (any colour code, PI, LCSS) and any 32 embedded bits: parse -> serialise is bit-for-bit identical")
    if p.has_emb:
        hx.prove(AND(p.colour_code == cc, p.emb.emb_parity_ok, p.embedded_signalling_bits == e32), "EMB voice burst: colour code, parity indicator and the 32 embedded bits as sent")
        hx.cover("emb")
    else:
        hx.cover("emb-equals-a-sync-pattern")
    hx.prove(p.voice_bits == voc, "EMB voice burst: vocoder bits extracted unchanged")


def cases(tier, seed):
    out = []
    for kind in BURST_KINDS:
        heavy = kind == "Rate34Data"
        for sync in DATA_SYNCS:
            if tier == "quick" and sync != "BsSourcedData" and kind not in ("PIHeader", "Rate12Data"):
                continue                   # quick: the other three sync patterns with the two light payload kinds only (the sync only selects the 48 centre bits)
            out.append(Case("data-%s-%s" % (kind, sync), "h_data_burst", dict(kind=kind, sync=sync), budget_s=900,
                            opts=dict(max_paths=3000, sweep=heavy, max_violations=6, solver_timeout_ms=120000),
                            bounds="payload: decode of %d symbolic bits; colour code 4 symbolic bits; sync %s" % (KINDS[BURST_KINDS[kind][0]].nbits, sync)))
    for sync in VOICE_SYNCS:
        out.append(Case("voice-" + sync, "h_voice_sync", dict(sync=sync), covers=["voice-sync"], budget_s=300, bounds="216 symbolic vocoder bits"))
    for cc in range(16):
        out.append(Case("voice-emb-cc%d" % cc, "h_voice_emb", dict(cc=cc), covers=["emb"], budget_s=600, bounds="216 vocoder bits and 32 embedded bits symbolic; colour code %d, PI and LCSS: declared split" % cc))
    return out
