"""C06 — Hamming / Golay / quadratic-residue codes: exact codeword sets and correction.

Real code: HammingCommon.generate/check/check_and_correct/correct_numpy_array, Golay2087, QuadraticResidue1676, fec_utils.
Oracle for "the standard's code": ETSI generator matrices as literals (props/etsi_matrices.py), independent of the code under test.
"""
import numpy
from bitarray import bitarray
from sxl.bits import bxor, band
from vf.api import Case, T, AND, OR, NOT, IMPLIES, IFF, EQ, weight
from props import etsi_matrices as ETSI
from okdmr.dmrlib.etsi.fec.hamming_7_4_3 import Hamming743
from okdmr.dmrlib.etsi.fec.hamming_13_9_3 import Hamming1393
from okdmr.dmrlib.etsi.fec.hamming_15_11_3 import Hamming15113
from okdmr.dmrlib.etsi.fec.hamming_16_11_4 import Hamming16114
from okdmr.dmrlib.etsi.fec.hamming_17_12_3 import Hamming17123
from okdmr.dmrlib.etsi.fec.golay_20_8_7 import Golay2087
from okdmr.dmrlib.etsi.fec.quadratic_residue_16_7_6 import QuadraticResidue1676

CODES = {
    "Hamming743": (Hamming743, 4, 7, 3, True),
    "Hamming1393": (Hamming1393, 9, 13, 3, True),
    "Hamming15113": (Hamming15113, 11, 15, 3, True),
    "Hamming16114": (Hamming16114, 11, 16, 4, True),
    "Hamming17123": (Hamming17123, 12, 17, 3, True),
    "Golay2087": (Golay2087, 8, 20, 7, False),
    "QuadraticResidue1676": (QuadraticResidue1676, 7, 16, 6, False),
}

EXPLANATION = ("C06: per block code the message (k bits), an arbitrary received word (n bits) and the error positions are symbolic, so each "
               "obligation covers all 2^k messages / all 2^n words / all positions at once.")
BOUNDS = {"quick": "complete: all 7 codes, all messages, all words, all single (and for (16,11,4) all double) error positions",
          "thorough": "same as quick plus the declared per-position split as a cross-check of the symbolic-position formulation"}
OUTSIDE = "error patterns beyond the advertised capability (weight >= 2 for distance-3 codes, >= 3 for (16,11,4))"
ASSUMPTIONS = ["ETSI generator matrices in props/etsi_matrices.py are a faithful transcription of annex B.3.1-B.3.5"]


def ref_encode(G, m):
    k, n = len(G), len(G[0])
    out = []
    for j in range(n):
        r = 0
        for i in range(k):
            if G[i][j]:
                r = bxor(r, m[i])
        out.append(r)
    return out


def h_code(hx, code):
    cls, k, n, d, hamming = CODES[code]
    G = getattr(ETSI, code)
    m = hx.ba(k, "m")
    snapshot = m.copy()
    cw = bitarray(cls.generate(m).tolist())
    hx.prove(m == snapshot, "%s.generate leaves its input unchanged" % code)
    hx.prove(len(cw) == n, "%s: codeword has %d bits" % (code, n))
    hx.prove(cw[:k] == m, "%s: encoder is systematic" % code)
    hx.prove(cw == bitarray(ref_encode(G, m.tolist())), "%s: generate(m) == m x ETSI generator matrix" % code)
    hx.prove(cls.check(cw.copy()), "%s: every encoder output passes check" % code)
    # results are fresh objects: damaging a returned codeword in place must not change what the encoder returns next
    first = cls.generate(m)
    keep = list(first.tolist())
    first[0] = 1 - first[0] if not hx.symbolic else NOT(first[0])
    first[n - 1] = 1 - first[n - 1] if not hx.symbolic else NOT(first[n - 1])
    again = cls.generate(m)
    hx.prove(EQ(list(again.tolist()), keep), "%s: generate(m) is unaffected by in-place changes to a previously returned codeword" % code)
    other = hx.ba(k, "m2")
    cls.generate(other)
    hx.prove(EQ(list(cls.generate(m).tolist()), keep), "%s: generate(m) is unaffected by encoding another message in between" % code)
    # exact codeword set among all 2^n words
    w = hx.ba(n, "w")
    member_ref = EQ(w.tolist(), ref_encode(G, w.tolist()[:k]))
    member_lib = T(bitarray(cls.generate(w[:k]).tolist()) == w)
    chk = T(cls.check(w.copy()))
    hx.prove(IFF(chk, member_ref), "%s: check(w) <=> w is a codeword of the ETSI code (all 2^%d words)" % (code, n))
    hx.prove(IFF(chk, member_lib), "%s: check(w) <=> w == generate(w[:k])" % code)
    # minimum distance (linear code: distance = minimum non-zero weight)
    hx.prove(IMPLIES(OR(*m.tolist()), weight(cw.tolist()) >= d), "%s: distinct codewords differ in >= %d bits" % (code, d))
    # derived parity-check matrix annihilates the generator
    GH = (numpy.array(cls.GENERATOR_MATRIX) @ numpy.array(cls.PARITY_CHECK_MATRIX).T) % 2
    hx.prove(bool((GH == 0).all()), "%s: G x H^T == 0" % code)
    hx.cover("code")


def h_single(hx, code):
    """single error at a symbolic position is repaired to the original codeword"""
    cls, k, n, d, hamming = CODES[code]
    m = hx.ba(k, "m")
    cw = bitarray(cls.generate(m).tolist())
    pos = hx.int(n.bit_length(), "p")
    hx.assume(pos < n)
    rx = cw.copy()
    rx.invert(pos)
    ok, rep = cls.check_and_correct(rx)
    hx.prove(ok, "%s: single error reported as corrected" % code)
    hx.prove(rep == cw, "%s: single error at any position repaired to the original codeword" % code)
    rx2 = cw.copy()
    rx2.invert(pos)
    arr = cls.correct_numpy_array(numpy.array(rx2.tolist()))
    hx.prove(bitarray(arr.tolist()) == cw, "%s: correct_numpy_array repairs a single error" % code)
    ok0, rep0 = cls.check_and_correct(cw.copy())
    hx.prove(AND(ok0, rep0 == cw), "%s: an error-free codeword is returned unchanged" % code)
    hx.cover("single")


def h_single_split(hx, code, pos):
    cls, k, n, d, hamming = CODES[code]
    m = hx.ba(k, "m")
    cw = bitarray(cls.generate(m).tolist())
    rx = cw.copy()
    rx.invert(pos)
    ok, rep = cls.check_and_correct(rx)
    hx.prove(AND(ok, rep == cw), "%s: single error at position %d repaired" % (code, pos))
    hx.cover("single")


def h_double_16114(hx):
    """extended Hamming(16,11,4): every double error is reported uncorrectable, never mis-repaired"""
    cls, k, n, d, hamming = CODES["Hamming16114"]
    m = hx.ba(k, "m")
    cw = bitarray(cls.generate(m).tolist())
    p, q = hx.int(5, "p"), hx.int(5, "q")
    hx.assume(AND(p < q, q < n))
    rx = cw.copy()
    rx.invert(p)
    rx.invert(q)
    sent = rx.copy()
    ok, rep = cls.check_and_correct(rx)
    hx.prove(NOT(ok), "Hamming16114: double error is reported as uncorrectable")
    hx.prove(rep == sent, "Hamming16114: double error is not 'repaired' into another word")
    hx.cover("double")


def cases(tier, seed):
    out = []
    for code, (cls, k, n, d, hamming) in CODES.items():
        out.append(Case("code-" + code, "h_code", dict(code=code), covers=["code"], budget_s=120,
                        bounds="%s: %d symbolic message bits, %d symbolic word bits" % (code, k, n)))
        if hamming:
            out.append(Case("single-" + code, "h_single", dict(code=code), covers=["single"], budget_s=120,
                            bounds="%s: symbolic message, symbolic error position 0..%d" % (code, n - 1)))
            if tier == "thorough":
                for pos in range(n):
                    out.append(Case("single-%s-pos%d" % (code, pos), "h_single_split", dict(code=code, pos=pos), covers=["single"], budget_s=60,
                                    bounds="%s: symbolic message, error at bit %d" % (code, pos)))
    out.append(Case("double-Hamming16114", "h_double_16114", {}, covers=["double"], budget_s=120,
                    bounds="symbolic message, two symbolic error positions p<q<16 (all 120 pairs)"))
    return out
