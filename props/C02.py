"""C02 — BPTC(196,96): every message, every error pattern of weight <= 2.

Real code: BPTC19696.encode / deinterleave_data_bits / deinterleave_all_bits / repair_if_necessary / fill_encoding_table,
Hamming15113 / Hamming1393 generate / check / check_and_correct / correct_numpy_array.
The 96 message bits are symbolic in every run (one run = all 2^96 messages).  Error positions: declared split over all
C(196,1)+C(196,2) patterns, plus a formulation with symbolic positions decided by the solver.
"""
import itertools
import random
from bitarray import bitarray
from vf.api import Case, T, AND, OR, NOT, IMPLIES, IFF, EQ
from okdmr.dmrlib.etsi.fec.bptc_196_96 import BPTC19696
from okdmr.dmrlib.etsi.fec.hamming_15_11_3 import Hamming15113
from okdmr.dmrlib.etsi.fec.hamming_13_9_3 import Hamming1393

EXPLANATION = ("C02: the 96 message bits are symbolic; after XOR-normalisation the Hamming syndromes of codeword+error are constants, so each "
               "error pattern is one path whose 96-bit decode==message identity is decided by the solver for all 2^96 messages at once.")
BOUNDS = {"quick": "all 2^96 messages x {no error, all 196 single errors (declared split AND one symbolic-position run), all double errors with at least one "
                   "bit in a VERIF_SEED-chosen row and column of the 13x15 matrix, all pairs inside a second row and column of the other kind (information / parity), plus 600 seeded random pairs}; one error pattern per path",
          "thorough": "all 2^96 messages x all 19,306 error patterns of weight <= 2 (declared split) + symbolic-position formulation for single errors"}
OUTSIDE = "error weight >= 3"
ASSUMPTIONS = []


def _rowcol():
    """interleaved (on-air) bit index -> (row 0..12, column 0..14) of the BPTC matrix, read from the current source"""
    rc = {}
    for data_index, (il, row, col, is_res, is_ham) in BPTC19696.INTERLEAVING_INDICES.items():
        if data_index == 0:
            continue
        rc[il] = (row - 1, col)
    return rc


def h_clean(hx):
    m = hx.ba(96, "m")
    snap = m.copy()
    enc = BPTC19696.encode(m)
    hx.prove(m == snap, "encode leaves its input unchanged")
    hx.prove(len(enc) == 196, "encode yields 196 bits")
    for data_index, (il, row, col, is_res, is_ham) in BPTC19696.INTERLEAVING_INDICES.items():
        if is_res:
            hx.prove(NOT(enc[il]), "reserved bit R at transmit position %d is zero" % il)
    sent = enc.copy()
    d1 = BPTC19696.deinterleave_data_bits(enc, repair_if_necessary=False)
    hx.prove(d1 == m, "decode without repair returns the message")
    hx.prove(enc == sent, "decode without repair leaves the received buffer unchanged")
    d2 = BPTC19696.deinterleave_data_bits(enc, repair_if_necessary=True)
    hx.prove(d2 == m, "decode with repair returns the message")
    hx.prove(enc == sent, "decode with repair leaves the received buffer unchanged")
    rep = BPTC19696.repair_if_necessary(enc.copy())
    hx.prove(rep == sent, "repair never alters an error-free codeword (all 196 bits)")
    # a second, unrelated encode/decode must not disturb the first codeword (results are fresh objects)
    m2 = hx.ba(96, "n")
    enc2 = BPTC19696.encode(m2)
    hx.prove(enc == sent, "encoding another message leaves the first codeword unchanged")
    hx.prove(BPTC19696.deinterleave_data_bits(enc2, repair_if_necessary=True) == m2, "second message decodes to itself")
    hx.prove(BPTC19696.deinterleave_data_bits(enc, repair_if_necessary=True) == m, "first codeword still decodes to the first message afterwards")
    # transmitted matrix: rows / columns are Hamming codewords
    allb = BPTC19696.deinterleave_all_bits(enc)
    table = BPTC19696.fill_encoding_table(BPTC19696.make_encoding_table(), allb)
    for r in range(13):
        hx.prove(Hamming15113.check(bitarray(table[r].tolist())), "row %d of the transmitted matrix is a Hamming(15,11,3) codeword" % r)
    for c in range(15):
        hx.prove(Hamming1393.check(bitarray(table[:, c].tolist())), "column %d of the transmitted matrix is a Hamming(13,9,3) codeword" % c)
    hx.cover("clean")


def h_single_symbolic(hx):
    m = hx.ba(96, "m")
    enc = BPTC19696.encode(m)
    pos = hx.int(8, "p")
    hx.assume(pos < 196)
    rx = enc.copy()
    rx.invert(pos)
    dec = BPTC19696.deinterleave_data_bits(rx, repair_if_necessary=True)
    hx.prove(dec == m, "single error at a symbolic transmit position: decode with repair returns the message")
    hx.cover("single")


def h_patterns(hx, patterns):
    # one pattern per path (declared split): a decoder whose control flow depends on the message then forks within its own pattern only
    pat = hx.pick("pattern", patterns)
    m = hx.ba(96, "m")
    enc = BPTC19696.encode(m)
    rx = enc.copy()
    for p in pat:
        rx.invert(p)
    dec = BPTC19696.deinterleave_data_bits(rx, repair_if_necessary=True)
    hx.prove(dec == m, "errors at transmit positions %s: decode with repair returns the message" % (list(pat),))
    hx.cover("patterns")


def cases(tier, seed):
    out = [Case("clean", "h_clean", {}, covers=["clean"], budget_s=120, bounds="96 symbolic message bits, no error"),
           Case("single-symbolic", "h_single_symbolic", {}, covers=["single"], budget_s=300,
                bounds="96 symbolic message bits, one error at a symbolic position p < 196")]
    singles = [(i,) for i in range(196)]
    pairs = list(itertools.combinations(range(196), 2))
    if tier == "quick":
        rng = random.Random(seed)
        rc = _rowcol()
        row, col = rng.randrange(13), rng.randrange(15)
        # plus one row / column of the other kind (information rows 0..8 vs column-parity rows 9..12; information columns 0..10 vs row-parity
        # columns 11..14): for these two every pair INSIDE the row / column is taken
        row2 = rng.randrange(9, 13) if row < 9 else rng.randrange(9)
        col2 = rng.randrange(11, 15) if col < 11 else rng.randrange(11)
        sel = [p for p in pairs if any(i in rc and (rc[i][0] == row or rc[i][1] == col) for i in p)]
        sel += [p for p in pairs if all(i in rc for i in p) and (rc[p[0]][0] == rc[p[1]][0] == row2 or rc[p[0]][1] == rc[p[1]][1] == col2)]
        chosen = set(sel)
        rest = [p for p in pairs if p not in chosen]
        sel += rng.sample(rest, 600)
        pats = singles + sorted(set(sel))
        note = "row %d / column %d of the matrix, pairs inside row %d / column %d, 600 random pairs (seed %d)" % (row, col, row2, col2, seed)
    else:
        pats = singles + pairs
        note = "all patterns of weight <= 2"
    chunk = 60 if tier == "quick" else 150
    for i in range(0, len(pats), chunk):
        out.append(Case("patterns-%05d" % i, "h_patterns", dict(patterns=[list(p) for p in pats[i:i + chunk]]), covers=["patterns"],
                        budget_s=600, opts=dict(max_violations=3), bounds="96 symbolic message bits x %d concrete error patterns (%s)" % (len(pats[i:i + chunk]), note)))
    return out
