"""C16 — Motorola TMS and ARS messages keep length framing and fields over a round trip.

Real code: TextMessagingService.from_bytes / as_bytes / encode_sn_and_encoding / decode_sn_and_encoding / encode_address_field,
TMS FirstHeader, AvailabilitySecondHeader; AutomaticRegistrationService.from_bytes / as_bytes / get_payload / encode_len_val /
read_len_val, ARS FirstHeader, ResponseSecondHeader, RegistrationRequestHeader.
Messages are built from fields through the constructors; addresses, texts, identifiers are symbolic octets / characters.
"""
from vf.api import Case, T, AND, OR, NOT, IMPLIES, IFF, EQ
from props.pdu_common import feq
from okdmr.dmrlib.motorola.text_messaging_service import (TextMessagingService, FirstHeader as TMSFirstHeader, AvailabilitySecondHeader, TMSPDUType,
                                                          TMSEncoding, TMSDeviceCapability)
from okdmr.dmrlib.motorola.automatic_registration_service import (AutomaticRegistrationService, FirstHeader as ARSFirstHeader, ResponseSecondHeader,
                                                                  RegistrationRequestHeader, ARSPDUType, RegistrationEvent, FailureReason, Encoding)

EXPLANATION = "C16: addresses, sequence number, message octets, identifier characters, refresh time and all header flags are symbolic; enums are declared splits."
BOUNDS = {"quick": "TMS: 3 PDU types x address lengths {0,1,4} x sequence 0..127 x encoding {none, UCS2} x message lengths {0,2,8}; ARS: 5 PDU types x flags x identifier lengths {0,1,5} x "
                   "refresh 1..127 x failure reasons x CSBK trailer on/off",
          "thorough": "address length 255, message 400 octets, identifiers 255 characters in addition"}
OUTSIDE = "non-ASCII identifiers: concrete witnesses only, not solver-decided (multi-byte UTF-8 is not modelled); TMS address longer than 255 octets"
ASSUMPTIONS = ["a sequence number / encoding that is absent (None) and the value 0 / UNDEFINED are the same field value (the wire format cannot tell them apart)",
               "identifier strings are ASCII (utf-8 encoding is then octet-identical)"]


def tms_common(hx, msg, tag, expect):
    b = msg.as_bytes()
    hx.prove(b[0] * 256 + b[1] == len(b) - 2, "%s: leading length equals the number of bytes that follow" % tag)
    st, q = hx.guard(TextMessagingService.from_bytes, b)
    hx.prove(st == "ok" and q is not None, "%s: own serialisation parses (%s)" % (tag, q if st == "exc" else ""))
    if st != "ok" or q is None:
        return
    hx.prove(q.header.pdu_type is msg.header.pdu_type, "%s: PDU type" % tag)
    hx.prove(feq(q.header.is_acknowledged, msg.header.is_acknowledged), "%s: acknowledged flag" % tag)
    hx.prove(q.address == expect["address"], "%s: address" % tag)
    if "sn" in expect:
        hx.prove((q.sequence_number or 0) == expect["sn"], "%s: sequence number (0..127)" % tag)
    if "encoding" in expect:
        want = expect["encoding"]
        got = q.encoding if q.encoding is not None else TMSEncoding.UNDEFINED
        hx.prove(got is (want if want is not None else TMSEncoding.UNDEFINED), "%s: encoding" % tag)
    if "message" in expect:
        hx.prove(q.message == expect["message"], "%s: message octets" % tag)
    if "capability" in expect:
        hx.prove((q.availability_header is not None) and q.availability_header.capability is expect["capability"] if expect["capability"] is not None else q.availability_header is None,
                 "%s: availability header" % tag)
    hx.prove(q.as_bytes() == b, "%s: parse -> serialise gives the same bytes" % tag)


def h_tms_text(hx, alen, mlen, enc):
    addr = hx.bytes(alen, "addr")
    sn = hx.int(7, "sn")
    text = hx.bytes(mlen, "msg")
    encoding = TMSEncoding.UCS2_LE if enc else None
    msg = TextMessagingService(first_header=TMSFirstHeader(pdu_type=TMSPDUType.SIMPLE_TEXT_MESSAGE, is_acknowledged=hx.flag("ack")), address=addr,
                               sequence_number=sn, encoding=encoding, message=text)
    tms_common(hx, msg, "TMS text (address %d, message %d octets)" % (alen, mlen), dict(address=addr, sn=sn, encoding=encoding, message=text))
    hx.cover("text")


def h_tms_ack(hx, alen):
    addr = hx.bytes(alen, "addr")
    sn = hx.int(7, "sn")
    msg = TextMessagingService(first_header=TMSFirstHeader(pdu_type=TMSPDUType.TMS_ACKNOWLEDGEMENT, is_acknowledged=hx.flag("ack")), address=addr, sequence_number=sn)
    tms_common(hx, msg, "TMS acknowledgement (address %d)" % alen, dict(address=addr, sn=sn))
    hx.cover("ack")


def h_tms_avail(hx, alen):
    addr = hx.bytes(alen, "addr")
    cap = hx.pick("cap", [None] + list(TMSDeviceCapability))
    msg = TextMessagingService(first_header=TMSFirstHeader(pdu_type=TMSPDUType.SERVICE_AVAILABILITY, is_acknowledged=hx.flag("ack")), address=addr,
                               availability_header=AvailabilitySecondHeader(capability=cap) if cap is not None else None)
    tms_common(hx, msg, "TMS service availability (address %d)" % alen, dict(address=addr, capability=cap))
    hx.cover("avail")


def ars_common(hx, msg, tag):
    b = msg.as_bytes()
    hx.prove(b[0] * 256 + b[1] == len(b) - 2, "%s: leading length equals the number of bytes that follow" % tag)
    hx.prove(len(msg) == len(b), "%s: len(message) equals the bytes produced" % tag)
    st, q = hx.guard(AutomaticRegistrationService.from_bytes, b)
    hx.prove(st == "ok" and q is not None, "%s: own serialisation parses (%s)" % (tag, q if st == "exc" else ""))
    if st != "ok" or q is None:
        return None
    h, g = msg.header, q.header
    hx.prove(AND(g.pdu_type is h.pdu_type, feq(g.has_more_headers, h.has_more_headers), feq(g.is_acknowledged, h.is_acknowledged),
                 feq(g.is_priority, h.is_priority), feq(g.is_control_message, h.is_control_message)), "%s: first header fields" % tag)
    hx.prove(feq(q.is_csbk_ars, msg.is_csbk_ars), "%s: CSBK trailer flag" % tag)
    hx.prove(q.as_bytes() == b, "%s: parse -> serialise gives the same bytes" % tag)
    return q


def h_ars_registration(hx, ptype, dlen, ulen, plen):
    more = hx.flag("more")
    hdr = ARSFirstHeader(pdu_type=getattr(ARSPDUType, ptype), has_more_headers=more, is_acknowledged=hx.flag("ack"), is_priority=hx.flag("prio"),
                         is_control_message=hx.flag("ctrl"))
    ev = hx.pick("event", list(RegistrationEvent))
    dev, usr, pwd = hx.text(dlen, "dev"), hx.text(ulen, "usr"), hx.text(plen, "pwd")
    msg = AutomaticRegistrationService(first_header=hdr, registration_request_header=RegistrationRequestHeader(event=ev) if more else None,
                                       device_identifier=dev, user_identifier=usr, password=pwd, is_csbk_ars=hx.flag("csbk"))
    tag = "ARS %s (identifiers %d/%d/%d chars)" % (ptype, dlen, ulen, plen)
    q = ars_common(hx, msg, tag)
    if q is not None:
        hx.prove(AND(q.device_identifier == dev, q.user_identifier == usr, q.password == pwd), "%s: identifiers and password" % tag)
        if more:
            hx.prove(q.registration_request_header is not None and q.registration_request_header.event is ev, "%s: registration event" % tag)
    hx.cover("registration")


NON_ASCII = ["\u00e9", "OK1\u00c1B", "\u65e5\u672c", "a\u20acb", "\U0001f4fb"]      # 2-, 3- and 4-octet UTF-8 sequences


def h_ars_unicode(hx, ptype):
    """identifiers / password with multi-octet UTF-8 characters: the symbolic text model covers the ASCII range only, so these are CONCRETE
    witnesses (declared split), not solver-decided: the length prefixes must count octets, not characters"""
    more = hx.flag("more")
    hdr = ARSFirstHeader(pdu_type=getattr(ARSPDUType, ptype), has_more_headers=more, is_acknowledged=hx.flag("ack"), is_priority=False, is_control_message=False)
    dev, usr, pwd = hx.pick("dev", ["1234"] + NON_ASCII), hx.pick("usr", NON_ASCII + [""]), hx.pick("pwd", ["", NON_ASCII[0], NON_ASCII[2]])
    msg = AutomaticRegistrationService(first_header=hdr, registration_request_header=RegistrationRequestHeader(event=list(RegistrationEvent)[0]) if more else None,
                                       device_identifier=dev, user_identifier=usr, password=pwd, is_csbk_ars=False)
    tag = "ARS %s with non-ASCII identifiers (%r, %r, %r)" % (ptype, dev, usr, pwd)
    q = ars_common(hx, msg, tag)
    if q is not None:
        hx.prove(q.device_identifier == dev and q.user_identifier == usr and q.password == pwd, "%s: identifiers and password" % tag)
    hx.cover("registration")


def h_ars_response(hx):
    more = hx.flag("more")
    failure = hx.flag("ack")          # is_acknowledged set = failure scenario (second header carries the failure reason)
    hdr = ARSFirstHeader(pdu_type=ARSPDUType.ARS_DEVICE_OR_QUERY_RESPONSE, has_more_headers=more, is_acknowledged=failure, is_priority=hx.flag("prio"),
                         is_control_message=hx.flag("ctrl"))
    second = None
    reason = refresh = None
    if more:
        if failure:
            reason = hx.pick("reason", [FailureReason.USER_ID_NOT_VALID, FailureReason.USER_VALIDATION_TIMEOUT])
            second = ResponseSecondHeader(failure_reason=reason).context(hdr)
        else:
            refresh = hx.int(7, "refresh")
            hx.assume(refresh >= 1)
            second = ResponseSecondHeader(refresh_time=refresh).context(hdr)
    msg = AutomaticRegistrationService(first_header=hdr, response_second_header=second, is_csbk_ars=hx.flag("csbk"))
    tag = "ARS response"
    q = ars_common(hx, msg, tag)
    if q is not None and more:
        hx.prove(q.response_second_header is not None, "%s: second header present" % tag)
        if failure:
            hx.prove(q.response_second_header.failure_reason is reason, "%s: failure reason" % tag)
        else:
            hx.prove(q.response_second_header.refresh_time == refresh, "%s: refresh time 1..127" % tag)
    hx.cover("response")


def h_ars_simple(hx, ptype):
    hdr = ARSFirstHeader(pdu_type=getattr(ARSPDUType, ptype), has_more_headers=False, is_acknowledged=hx.flag("ack"), is_priority=hx.flag("prio"),
                         is_control_message=hx.flag("ctrl"))
    msg = AutomaticRegistrationService(first_header=hdr, is_csbk_ars=hx.flag("csbk"))
    ars_common(hx, msg, "ARS " + ptype)
    hx.cover("simple")


def cases(tier, seed):
    out = []
    alens = (0, 1, 4) if tier == "quick" else (0, 1, 4, 255)
    mlens = (0, 2, 8) if tier == "quick" else (0, 2, 8, 400)
    for a in alens:
        for m in mlens:
            for enc in (False, True):
                out.append(Case("tms-text-a%d-m%d-%s" % (a, m, "ucs2" if enc else "noenc"), "h_tms_text", dict(alen=a, mlen=m, enc=enc), covers=["text"], budget_s=300,
                                bounds="address %d, message %d symbolic octets, sequence number 7 bits" % (a, m)))
        out.append(Case("tms-ack-a%d" % a, "h_tms_ack", dict(alen=a), covers=["ack"], budget_s=300, bounds="address %d symbolic octets, sequence number 7 bits" % a))
        out.append(Case("tms-avail-a%d" % a, "h_tms_avail", dict(alen=a), covers=["avail"], budget_s=300, bounds="address %d symbolic octets, capability split" % a))
    ids = [(0, 0, 0), (1, 0, 5), (5, 1, 0), (5, 5, 5)] if tier == "quick" else [(0, 0, 0), (1, 0, 5), (5, 1, 0), (5, 5, 5), (255, 1, 0), (0, 255, 255)]
    for pt in ("DEVICE_REGISTRATION_REQUEST", "USER_REGISTRATION_REQUEST"):
        out.append(Case("ars-%s-non-ascii" % pt, "h_ars_unicode", dict(ptype=pt), covers=["registration"], budget_s=300,
                        bounds="concrete witnesses (not solver-decided): identifiers / passwords with 2-, 3- and 4-octet UTF-8 characters"))
        for d, u, p in ids:
            out.append(Case("ars-%s-%d-%d-%d" % (pt, d, u, p), "h_ars_registration", dict(ptype=pt, dlen=d, ulen=u, plen=p), covers=["registration"], budget_s=300,
                            opts=dict(max_paths=4000), bounds="identifier characters symbolic ASCII; header flags, event, CSBK trailer split"))
    out.append(Case("ars-response", "h_ars_response", {}, covers=["response"], budget_s=300, opts=dict(max_paths=4000), bounds="flags split, refresh 1..127 symbolic, failure reasons split"))
    for pt in ("STATUS_QUERY_REQUEST", "DEVICE_DEREGISTATION_NOTICE"):
        out.append(Case("ars-" + pt, "h_ars_simple", dict(ptype=pt), covers=["simple"], budget_s=120, bounds="flags split"))
    return out
