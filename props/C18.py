"""C18 — repeater handshake handlers serve only registered peers and keep peers separate.

Real code: P2PDatagramProtocol.datagram_received / handle_registration / handle_rdac_request / handle_dmr_request / handle_ping /
get_redirect_packet / packet_is_* / command_get_type; RDACDatagramProtocol.datagram_received / step0..step14; RepeaterStorage; Repeater.
Environment: recording fake transport; Repeater.read_snmp_values (SNMP network I/O) replaced by a stub returning {} at run time.
"""
from vf.api import Case, T, AND, OR, NOT, IMPLIES, IFF, EQ
from okdmr.dmrlib.protocols.hytera.p2p_datagram_protocol import P2PDatagramProtocol
from okdmr.dmrlib.protocols.hytera.rdac_datagram_protocol import RDACDatagramProtocol
from okdmr.dmrlib.storage.repeater_storage import RepeaterStorage
from okdmr.dmrlib.storage.repeater import Repeater

Repeater.read_snmp_values = lambda self, *a, **k: {}          # network I/O stub (hook_needed of C18)

EXPLANATION = ("C18: one handler step from an arbitrary storage / step state (which of 3 peers are stored, registered flags, per-IP RDAC step) on a datagram from a symbolic peer; "
               "P2P datagrams are fully symbolic octets, RDAC datagrams are the expected / an unexpected 4-octet prefix with a symbolic tail, or 1-octet resets.")
BOUNDS = {"quick": "P2P: fully symbolic datagrams of 0, 1, 9, 20, 21, 22 octets from any of 3 peers (two sharing an IP) in any presence / registration state; RDAC: every step 0..14 x "
                   "{expected prefix, other prefix, 1-octet reset 0x00 / other, fully symbolic 4-octet prefix} with a symbolic 36-octet tail (step 6: concrete text fields); histories of depth 2",
          "thorough": "P2P datagrams of 40 octets in addition; histories of depth 3"}
OUTSIDE = "disconnect(), real transports, SNMP content, text fields of the RDAC step-6 response (UTF-16 decoding is exercised on concrete witnesses)"
ASSUMPTIONS = ["'to the requester' = a socket address on the requester's host: its source address, or its IP at the P2P listening port (the DMR start-up answer is sent there by design)",
               "the expected RDAC response prefixes per step are transcribed into this file from the handshake captured in the handler's constants at the pinned commit",
               "SNMP (Repeater.read_snmp_values) is stubbed to return {}"]

PEERS = [("10.0.0.1", 50000), ("10.0.0.2", 50000), ("10.0.0.1", 50001)]
REG = "p2p_is_registered"


class FakeTransport:
    def __init__(self):
        self.out = []

    def sendto(self, data, addr=None):
        self.out.append((data, addr))

    def is_closing(self):
        return False

    def get_extra_info(self, k):
        return None


def build_storage(hx):
    st = RepeaterStorage()
    info = []
    for i, p in enumerate(PEERS):
        present = hx.flag("present%d" % i)
        reg = False
        if present:
            r = st.match_incoming(p, auto_create=True)
            r.address_out = ("out%d" % i, 1000 + i)
            reg = hx.flag("registered%d" % i)
            if reg:
                r.attr(REG, True)
        info.append((present, reg))
    return st, info


def peer_state(st):
    out = {}
    for p in PEERS:
        r = st.match_incoming(p)
        out[p] = (r is not None, bool(r is not None and r.attr(REG)), r.address_out if r is not None else None, id(r) if r is not None else None)
    return out


def p2p_step(hx, proto, st, data, sender, tag):
    before = peer_state(st)
    n = len(data)
    proto.transport.out = []
    status, res = hx.guard(proto.datagram_received, data, sender)
    out = proto.transport.out
    after = peer_state(st)
    was_present, was_reg, out_addr, _ = before[sender]
    is_cmd = AND(*[data[i] == b for i, b in enumerate([0x50, 0x32, 0x50])]) if n >= 3 else 0
    ptype = data[20] if n > 20 else 0
    is_ping = AND(*[data[4 + i] == b for i, b in enumerate([0x0A, 0x00, 0x00, 0x00, 0x14])]) if n >= 9 else 0
    is_registration = AND(is_cmd, ptype == 0x10)
    is_request = OR(AND(is_cmd, OR(ptype == 0x11, ptype == 0x12)), AND(NOT(is_cmd), is_ping))
    non_reject = 0
    for d, addr in out:
        reject = len(d) == 1 and hx.choose(d[0] == 0)
        if reject:
            hx.prove(addr == sender, "%s: the single-byte reject goes to the requester" % tag)
            hx.prove(AND(is_request, not was_reg), "%s: a reject is only sent for a start-up / ping request of an unregistered source" % tag)
        else:
            non_reject += 1
            hx.prove(OR(is_registration, was_reg), "%s: acceptance / redirect / ping answer only for a source that completed registration earlier (or the registration answer itself)" % tag)
            dest_ok = addr is not None and (addr == sender or addr[0] == sender[0] or addr == after[sender][2])
            hx.prove(dest_ok, "%s: answers are addressed to the repeater's stored outbound address or to the requester's host (got %r)" % (tag, addr))
    if status == "ok":
        hx.prove(IMPLIES(AND(is_request, not was_reg), len(out) == 1 and non_reject == 0), "%s: a request from an unregistered source gets exactly the single-byte reject" % tag)
    # registration flag only becomes true for the sender, and only through a registration request
    for p in PEERS:
        if p != sender:
            hx.prove(after[p][:2] == before[p][:2] and after[p][3] == before[p][3], "%s: another peer's record and registration are untouched" % tag)
        else:
            if after[p][1] and not before[p][1]:
                hx.prove(is_registration, "%s: a source becomes registered only through its own registration request" % tag)
            if before[p][1]:
                hx.prove(after[p][1], "%s: a registered source stays registered" % tag)
    return status


def h_p2p_step(hx, n):
    st, info = build_storage(hx)
    proto = P2PDatagramProtocol(storage=st)
    proto.transport = FakeTransport()
    sender = PEERS[hx.pick("who", [0, 1, 2])]
    data = hx.bytes(n, "d")
    p2p_step(hx, proto, st, data, sender, "P2P step (%d octets)" % n)
    hx.cover("p2p")


def p2p_message(hx, kind, tag):
    base = [0x50, 0x32, 0x50, 0x00] + [hx.int(8, "%s_b%d" % (tag, i)) for i in range(4, 20)]
    if kind == "registration":
        return bytes(base + [0x10])
    if kind == "dmr":
        return bytes(base + [0x11])
    if kind == "rdac":
        return bytes(base + [0x12])
    if kind == "ack":
        return bytes([0x50, 0x32, 0x50, 0x00, 0x0C, 0x00, 0x00, 0x00, 0x14] + [0] * 12)
    if kind == "ping":
        return bytes([0x00, 0x00, 0x00, 0x00, 0x0A, 0x00, 0x00, 0x00, 0x14] + [hx.int(8, "%s_p%d" % (tag, i)) for i in range(12)])
    if kind == "unknown":
        return bytes(base + [0x55])
    return hx.bytes(3, tag + "_g")


def h_p2p_history(hx, depth):
    st = RepeaterStorage()
    proto = P2PDatagramProtocol(storage=st)
    proto.transport = FakeTransport()
    registered = set()
    for k in range(depth):
        kind = hx.pick("kind%d" % k, ["registration", "dmr", "rdac", "ping", "ack", "unknown", "garbage"])
        sender = PEERS[hx.pick("who%d" % k, [0, 1, 2])]
        data = p2p_message(hx, kind, "m%d" % k)
        was = sender in registered
        status = p2p_step(hx, proto, st, data, sender, "P2P history step %d (%s)" % (k, kind))
        out = proto.transport.out
        if status == "ok":
            if kind in ("dmr", "rdac", "ping"):
                if was:
                    hx.prove(len(out) >= 1 and all(not (len(d) == 1) for d, a in out), "history: a registered source gets its acceptance / answer (%s)" % kind)
                else:
                    hx.prove(len(out) == 1 and len(out[0][0]) == 1, "history: an unregistered source gets the single-byte reject (%s)" % kind)
            if kind == "registration":
                registered.add(sender)
        r = st.match_incoming(sender)
        hx.prove((r is not None and bool(r.attr(REG))) == (sender in registered) if status == "ok" else True, "history: a source is registered iff it sent a registration request earlier")
    hx.cover("history")


# ------------------------------------------------------------------ RDAC
# step -> (expected response prefix, next step, number of requests sent on advance); transcribed from the captured handshake
RDAC = {1: ("7e0400fd", 2, 1), 2: ("7e040010", 3, 0), 3: ("7e040000", 4, 1), 4: ("7e040000", 5, 2), 5: ("7e040010", 6, 0), 6: ("7e040000", 7, 2), 7: ("7e040010", 8, 1),
        8: ("7e040010", 10, 0), 10: ("7e040000", 11, 1), 11: ("7e040010", 12, 0), 12: ("7e040000", 13, 2), 13: ("7e0400fa", 14, 0)}
STEPS = [None, 0, 1, 2, 3, 4, 5, 6, 7, 8, 10, 11, 12, 13, 14]


def h_rdac_step(hx, step, kind):
    st = RepeaterStorage()
    calls = []
    proto = RDACDatagramProtocol(storage=st, callback=lambda rid: calls.append(rid))
    proto.transport = FakeTransport()
    sender = PEERS[hx.pick("who", [0, 1])]
    other_ip = "10.0.0.2" if sender[0] == "10.0.0.1" else "10.0.0.1"
    other_step = hx.pick("other_step", [None, 3, 14])
    if step is not None:
        proto.step[sender[0]] = step
    if other_step is not None:
        proto.step[other_ip] = other_step
        st.match_incoming((other_ip, 50000), auto_create=True)
    if hx.flag("known"):
        st.match_incoming(sender, auto_create=True)
    eff = step or 0                       # an absent entry and 0 both mean 'not started'
    tail_len = 36
    if kind == "reset-00":
        data = b"\x00"
    elif kind == "reset-other":
        b0 = hx.int(8, "r")
        hx.assume(b0 != 0)
        data = bytes([b0])
    elif kind == "expected" and eff in RDAC:
        pre = bytes.fromhex(RDAC[eff][0])
        data = pre + (bytes(212) if eff == 6 else hx.bytes(tail_len, "t"))
    elif kind == "symbolic":
        data = hx.bytes(4, "p") + (bytes(212) if eff == 6 else hx.bytes(tail_len, "t"))
    else:
        pre = hx.bytes(4, "p")
        if eff in RDAC:
            hx.assume(NOT(pre == bytes.fromhex(RDAC[eff][0])))
        data = pre + (bytes(212) if eff == 6 else hx.bytes(tail_len, "t"))
    n_before = len(st)
    status, res = hx.guard(proto.datagram_received, data, sender)
    tag = "RDAC step %s, %s" % (step, kind)
    hx.prove(status == "ok", "%s: handling does not fail (%s)" % (tag, res if status == "exc" else ""))
    now = proto.step.get(sender[0])
    out = proto.transport.out
    for d, a in out:
        hx.prove(a == sender, "%s: requests go to the peer that sent the datagram" % tag)
    hx.prove(proto.step.get(other_ip) == other_step, "%s: another peer's step is never changed" % tag)
    if status != "ok":
        return
    if len(data) == 1 and eff != 14:
        hx.prove(now == 1, "%s: a one-byte reset restarts the identification (step 0 -> 1)" % tag)
        hx.prove(len(out) == 1, "%s: the restart sends the first request" % tag)
        hx.prove(len(calls) == 0, "%s: no completion is reported" % tag)
    elif eff == 14:
        hx.prove(now == 14, "%s: a finished identification stays finished" % tag)
        hx.prove(len(calls) == 0, "%s: completion is not reported again" % tag)
    elif eff == 0:
        hx.prove(now == 1 and len(out) == 1 and len(calls) == 0, "%s: the first datagram of a peer starts the identification" % tag)
    else:
        exp, nxt, nreq = RDAC[eff]
        matches = data[:4] == bytes.fromhex(exp)
        if hx.choose(matches):
            hx.prove(now == nxt, "%s: the expected response advances the step to %d" % (tag, nxt))
            hx.prove(len(out) == nreq, "%s: advancing sends %d request(s)" % (tag, nreq))
            hx.prove(len(calls) == (1 if nxt == 14 else 0), "%s: completion is reported exactly on the 13 -> 14 transition" % tag)
            hx.cover("advance")
        else:
            hx.prove(now == eff, "%s: an unexpected response does not change the step" % tag)
            hx.prove(len(out) == 0 and len(calls) == 0, "%s: an unexpected response triggers nothing" % tag)
            hx.cover("stay")
    hx.cover("rdac")


def h_rdac_run(hx):
    """a complete run for one peer with another peer's datagrams interleaved: completion is reported exactly once"""
    st = RepeaterStorage()
    calls = []
    proto = RDACDatagramProtocol(storage=st, callback=lambda rid: calls.append(rid))
    proto.transport = FakeTransport()
    a, b = PEERS[0], PEERS[1]
    proto.datagram_received(b"\x00", a)
    for s in (1, 2, 3, 4, 5, 6, 7, 8, 10, 11, 12, 13):
        if s in (2, 7, 13) and hx.flag("interleave%d" % s):
            hx.guard(proto.datagram_received, hx.bytes(5, "x%d" % s), b)      # the other peer may send anything (a short datagram may even fail): not this peer's business
        tail = bytes(212) if s == 6 else hx.bytes(36, "t%d" % s)
        proto.datagram_received(bytes.fromhex(RDAC[s][0]) + tail, a)
        hx.prove(proto.step[a[0]] == RDAC[s][1], "complete run: step %d advances to %d whatever the other peer sends in between" % (s, RDAC[s][1]))
    hx.prove(len(calls) == 1 and calls[0] == st.match_incoming(a).id, "complete run: completion reported exactly once, with the peer's id")
    proto.datagram_received(hx.bytes(8, "extra"), a)
    hx.prove(len(calls) == 1, "complete run: extra data after completion does not report it again")
    hx.cover("run")


def cases(tier, seed):
    out = []
    for n in ([0, 1, 9, 20, 21, 22] if tier == "quick" else [0, 1, 9, 20, 21, 22, 40]):
        out.append(Case("p2p-step-%d" % n, "h_p2p_step", dict(n=n), covers=["p2p"], budget_s=900, opts=dict(max_paths=30000, max_violations=8), bounds="%d fully symbolic octets; storage state and sender symbolic" % n))
    out.append(Case("p2p-history", "h_p2p_history", dict(depth=2 if tier == "quick" else 3), covers=["history"], budget_s=1200, opts=dict(max_paths=60000, max_violations=8),
                    bounds="all sequences over 7 message classes x 3 peers from the empty storage, header octets symbolic"))
    for s in STEPS:
        for kind in ("expected", "unexpected", "symbolic", "reset-00", "reset-other"):
            if kind == "expected" and (s or 0) not in RDAC:
                continue
            out.append(Case("rdac-step%s-%s" % (s, kind), "h_rdac_step", dict(step=s, kind=kind), covers=["rdac"], budget_s=300, opts=dict(max_paths=5000, max_violations=8),
                            bounds="peer at step %s, datagram class %s (symbolic tail), other peer's step symbolic" % (s, kind)))
    out.append(Case("rdac-complete-run", "h_rdac_run", {}, covers=["run"], budget_s=600, opts=dict(max_paths=10000), bounds="complete 13-step run with symbolic tails and optional interleaved datagrams of a second peer"))
    return out
