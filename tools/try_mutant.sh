#!/bin/bash
# usage: tools/try_mutant.sh <patch.diff> <property> [tier]   — applies the patch to /repo, runs the check, always reverts
set -u
P=$1; ID=$2; TIER=${3:-quick}
cd /verif
git -C /repo apply "$P" || { echo "patch does not apply"; exit 3; }
./check $ID --tier $TIER --no-selfcheck > /tmp/try_mutant.$$.log 2>&1; rc=$?
git -C /repo checkout -- . 
grep -E "^(VIOLATION|INCONCLUSIVE|  violated|C[0-9]+ )" /tmp/try_mutant.$$.log | cut -c1-260 | head -${LINES_MAX:-8}
rm -f /tmp/try_mutant.$$.log
echo "exit=$rc"
exit $rc
