#!/bin/bash
# usage: tools/try_mutant.sh <patch.diff> <property> [tier]
# runs the check against a scratch worktree of /repo with the patch applied (OKDMR_REPO points the check at it), so /repo itself
# stays untouched and several mutants can be tried while other work goes on; equivalent to
#   git -C /repo apply <patch>; ./check <id>; git -C /repo checkout -- .
set -u
P=$(readlink -f $1); ID=$2; TIER=${3:-quick}; WT=/tmp/try_wt_$$
git -C /repo worktree add -q --detach $WT HEAD || exit 3
git -C $WT apply "$P" || { echo "patch does not apply"; git -C /repo worktree remove --force $WT; exit 3; }
cd "$(dirname "$(dirname "$(readlink -f "$0")")")"
OKDMR_REPO=$WT ./check $ID --tier $TIER --no-selfcheck --no-evidence > /tmp/try_mutant.$$.log 2>&1; rc=$?
git -C /repo worktree remove --force $WT
grep -E "^(VIOLATION|INCONCLUSIVE|  violated|C[0-9]+ )" /tmp/try_mutant.$$.log | cut -c1-260 | head -${LINES_MAX:-8}
rm -f /tmp/try_mutant.$$.log
echo "exit=$rc"
exit $rc
