#!/usr/bin/env python3
"""re-runs the quick (or given tier) check against every seeded change (in scratch worktrees) and updates seeded/*/meta.json"""
import json, os, subprocess, sys, glob
VERIF = os.path.dirname(os.path.dirname(os.path.abspath(__file__)))
tier = sys.argv[1] if len(sys.argv) > 1 else "quick"
only = sys.argv[2:] 
rows = []
for d in sorted(glob.glob(VERIF + "/seeded/*/")):
    name = os.path.basename(d.rstrip("/"))
    if only and not any(name.startswith(o) for o in only):
        continue
    meta = json.load(open(d + "meta.json"))
    prop = meta["property"]
    r = subprocess.run([VERIF + "/tools/try_mutant.sh", d + "patch.diff", prop, tier], capture_output=True, text=True, env=dict(os.environ, LINES_MAX="3"))
    out = r.stdout
    rc = r.returncode
    res = {1: "detected", 0: "missed"}.get(rc, "inconclusive" if rc == 2 else "patch-does-not-apply")
    first = [l for l in out.splitlines() if "violated:" in l or "INCONCLUSIVE" in l]
    meta["check_result"] = res
    meta["check_tier"] = tier
    meta["check_output"] = (first[0].strip()[:240] if first else "")
    meta["checked_at_repo_commit"] = subprocess.run(["git", "-C", "/repo", "rev-parse", "--short", "HEAD"], capture_output=True, text=True).stdout.strip()
    json.dump(meta, open(d + "meta.json", "w"), indent=1)
    rows.append((name, res))
    print(name, res, flush=True)
