#!/usr/bin/env python3
"""usage: keep_mutant.py <src dir> <name e.g. C05-m1> <property> <check result: detected|missed|inconclusive> [note]
copies patch.diff + demo.py into /verif/seeded/<name>/ and writes meta.json (after tools/vet_mutant.sh said VETTED)"""
import json, os, shutil, subprocess, sys
src, name, prop, result = sys.argv[1:5]
note = sys.argv[5] if len(sys.argv) > 5 else ""
vet = subprocess.run(["/verif/tools/vet_mutant.sh", src], capture_output=True, text=True).stdout
if "VETTED" not in vet:
    print("NOT VETTED:", vet); sys.exit(1)
dst = "/verif/seeded/" + name
os.makedirs(dst, exist_ok=True)
shutil.copy(os.path.join(src, "patch.diff"), dst)
shutil.copy(os.path.join(src, "demo.py"), dst)
m = json.load(open(os.path.join(src, "meta.json")))
head = subprocess.run(["git", "-C", "/repo", "rev-parse", "--short", "HEAD"], capture_output=True, text=True).stdout.strip()
meta = dict(property=prop, breaks=m.get("summary"), needs_to_manifest=m.get("needs"), files=m.get("files"), why_tests_pass=m.get("why_tests_pass"),
            origin="independent sub-agent given only the property text and a scratch worktree",
            base_commit=head,
            confirmed=dict(how="tools/vet_mutant.sh in a scratch worktree of /repo@%s: demo.py exits 0 on the clean tree; with patch.diff applied the repository's 204 tests pass and demo.py exits 1" % head,
                           output=vet.strip().splitlines()[0]),
            check_result=result, check_cmd="git -C /repo apply seeded/%s/patch.diff && ./check %s --tier quick; git -C /repo checkout -- ." % (name, prop), note=note)
json.dump(meta, open(os.path.join(dst, "meta.json"), "w"), indent=1)
print("kept", name, result)
