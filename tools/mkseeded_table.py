#!/usr/bin/env python3
"""Regenerate the seeded-change table of DESIGN.md (between the SEEDED-TABLE markers) from seeded/*/meta.json."""
import json, os, re, sys
ROOT = os.path.dirname(os.path.dirname(os.path.abspath(__file__)))


def short(s, n):
    s = " ".join(str(s).split())
    return s if len(s) <= n else s[:n - 1].rstrip() + "…"


def table():
    rows = ["| change | property | what it breaks (as described by its author) | files | quick check | thorough check | how it is caught / why it is not |",
            "|---|---|---|---|---|---|---|"]
    for d in sorted(os.listdir(os.path.join(ROOT, "seeded"))):
        p = os.path.join(ROOT, "seeded", d, "meta.json")
        if not os.path.exists(p):
            continue
        m = json.load(open(p))
        files = ", ".join(os.path.basename(f) for f in m.get("files", []))
        rows.append("| %s | %s | %s | %s | %s | %s | %s |" % (d, m.get("property"), short(m.get("breaks", ""), 170).replace("|", "/"), files, m.get("check_result", "?"),
                                                          m.get("thorough_result", "—"), short(m.get("how_caught") or (m.get("check_output") or "").replace("violated: ", "") or m.get("note", ""), 200).replace("|", "/")))
    return "\n".join(rows)


def main():
    path = os.path.join(ROOT, "DESIGN.md")
    s = open(path).read()
    new = re.sub(r"(<!-- SEEDED-TABLE-BEGIN -->\n).*?(<!-- SEEDED-TABLE-END -->)", lambda mo: mo.group(1) + table() + "\n" + mo.group(2), s, flags=re.S)
    if "--print" in sys.argv:
        print(table())
    else:
        open(path, "w").write(new)


if __name__ == "__main__":
    main()
