#!/bin/bash
# runs every claimed check (quick or given tier) and prints one summary line per property
TIER=${1:-quick}
cd /verif
for p in $(python3 -c "import json; print(' '.join(c['property_id'] for c in json.load(open('MANIFEST.json'))['checks']))"); do
  ./check $p --tier $TIER ${2:-} 2>&1 | tail -n 1 | cut -c1-220
done
