#!/bin/bash
# usage: tools/process_mutants.sh <prop> [tier] — for /tmp/out_<prop>/m*: vet in a scratch worktree, run the check against it, keep under seeded/
P=$1; TIER=${2:-quick}
for d in /tmp/out_$P/m*; do
  m=$(basename $d)
  [ -f $d/patch.diff ] || continue
  v=$(/verif/tools/vet_mutant.sh $d | tail -n 1)
  if [ "$v" != "VETTED" ]; then echo "$P $m NOT VETTED"; continue; fi
  out=$(LINES_MAX=4 /verif/tools/try_mutant.sh $d/patch.diff $P $TIER 2>&1)
  rc=$(echo "$out" | grep -o "exit=[0-9]*" | cut -d= -f2)
  case "$rc" in 1) res=detected;; 0) res=missed;; *) res=inconclusive;; esac
  note=$(echo "$out" | grep -E "violated:|INCONCLUSIVE" | head -n 1 | cut -c1-200)
  /verif/tools/keep_mutant.py $d $P-$m $P $res "$note"
done
