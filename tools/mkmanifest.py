#!/usr/bin/env python3
"""regenerates MANIFEST.json from the table below (single source of truth for what is claimed)"""
import json, os
V = os.path.dirname(os.path.dirname(os.path.abspath(__file__)))
TECH = "bounded symbolic execution of the real modules (sxl import-hook lifting) + z3 SMT (sampled obligations re-decided by cvc5 on the exact encoding); counterexamples replayed on the unmodified code"
NOTE = ("Trusted: CPython 3.12, the sxl AST rewriter and the bit-precise stand-ins for bitarray/numpy/bytes (validated on every run by the "
        "repository's 204 tests under the hook and by replaying every witness/counterexample on the real types), z3 5.1.0 (a sample of discharged obligations is re-decided by cvc5 1.4.0), the reference "
        "oracle written in props/<id>.py. Nothing is claimed outside the bounds listed in the evidence file.")
CLAIMED = {
    "C05": ("Every obligation (bitwise/table CRC == independent polynomial-division reference, front-end inversion/mask/byte order, check<=>computed value, "
            "burst and weight<=3 detection) is proved by the solver for ALL message contents at every length in the bound; lengths beyond the bound are not claimed.", "6/C05"),
}
CLAIMED["C06"] = ("For each of the 7 block codes: systematic encoder, generate == ETSI matrix product, check(w) <=> codeword membership for a fully symbolic received word "
                  "(all 2^n words in one query), minimum distance by a cardinality constraint, single-error repair at a symbolic position, (16,11,4) double errors "
                  "reported uncorrectable. Complete for the property's quantifier (no bound left out).", "6/C06")
CLAIMED["C02"] = ("All 2^96 messages are covered in every run (message bits symbolic). quick: no error, all 196 single errors (split and symbolic position), a seeded "
                  "subset (~3,700, one pattern per path) of the 19,110 double errors; thorough: all 19,306 patterns of weight <= 2.", "6/C02")
CLAIMED["C09"] = ("All 2^72 / 2^28 / 2^11 messages (message bits symbolic): extraction, row Hamming codes, column parities, checksum read-back == computed checksum, "
                  "three encode input forms agree. Complete for the property's quantifier.", "6/C09")
CLAIMED["C10"] = ("All 2^144 blocks as bits and bytes (decode(encode(x)) == x, 196 bits out), both permutation identities over symbolic arrays, symbol-mapping layers "
                  "bijective for all 2^196 streams, and the decoder step at each of the 49 positions from every reachable state with every received point: rejected <=> "
                  "not a point the encoder can emit there.", "6/C10")
CLAIMED["C11"] = ("All 65,536 multiplier pairs vs an independent GF(2^8) multiply; all 2^72 messages x 2^24 masks: systematic, zero syndromes, check accepts; "
                  "check(w) <=> codeword for all 2^96 words; every corruption of 1..3 symbols detected (positions and values symbolic). Complete for the quantifier.", "6/C11")
CLAIMED["C14"] = ("All 2^32 unsigned and all signed |v| <= 2^31-1 var-ints (canonical form, exact read-back, consumed length, arbitrary trailing bytes); float writers for "
                  "every x = I + K/128^p (p = 1, 2; 3 in thorough) as exact dyadic rationals; info-time for all in-range field values against the decoding slices read "
                  "from the XML view's AST. The latitude/longitude clause is NOT decided (decimal rounding; see evidence.outside_bounds).", "6/C14")
CLAIMED["C03"] = ("Every PDU decoder runs on ALL right-length bit strings (symbolic bits): documented error or an object whose serialisation is a decode-encode fixed point, "
                  "every field stable; the object is rebuilt through the constructor from its field values and must parse back field-equal and bit-equal; flags the decoder "
                  "never varies are forced both ways; every element enum over its full width; GPS-info raw coordinates via exact dyadic floats.", "6/C03")
CLAIMED["C04"] = ("For every received slot-type / EMB word and every received data-header, PI-header, short-LC, confirmed rate-x block and 12-octet HRNP frame the indicator is "
                  "compared with an independent truth predicate over the received bits; library-generated PDUs parse back with the indicator true. Detection follows with C05's "
                  "burst/weight corollaries. Two families of genuine deviations are listed as known findings (zero check field means generate; check evaluated on normalised fields).", "6/C04")
CLAIMED["C01"] = ("Data bursts: payload = every object the PDU decoders produce from symbolic bits (all field values of all supported kinds), colour code symbolic, "
                  "assembled as the library's generator does, then as_bits -> from_bits -> as_bits / as_bytes -> from_bytes: data type, colour code, sync, every payload "
                  "field and all 264 bits equal. Voice bursts: all 2^216 vocoder payloads around each voice sync and around valid EMB with any 32 embedded bits.", "6/C01")
CLAIMED["C12"] = ("Every implemented (service, opcode) of RRS/LP/TMP/RCP: the PDU is obtained by parsing a frame with symbolic payload octets, reliable/confirmed flags and "
                  "checksum octet (all in-range field values), then framing (service byte, opcode, length field, independent checksum, terminator, len()), parse -> serialise "
                  "equality, field equality, flags forced both ways, nesting in HRNP (length, ones-complement checksum, re-parse) and in HSTRP with 0..2 options. GPS text "
                  "fields are concrete witnesses, not solver-decided (also the GPS block built from float fields: declared split over boundary witnesses).", "6/C12")
CLAIMED["C16"] = ("TMS (3 PDU types) and ARS (5 PDU types) built through the constructors with symbolic addresses, sequence numbers, message octets, identifier characters, "
                  "refresh times and header flags: leading length == bytes that follow, parse gives equal fields, parse -> serialise gives equal bytes.", "6/C16")
CLAIMED["C13"] = ("72-octet frames with symbolic sequence number, colour nibble, both ids, all reserved octets, source port and all 264 payload bits (centre not a SYNC pattern), "
                  "type fields split over their defined codes: the raw decoder and the GENERATED kaitai parser (run on the symbolic frame through a stream stand-in) give equal "
                  "objects and bursts, ids/colour equal the encoded 24-bit/4-bit values, and as_ipsc_bytes of either reproduces the 72 octets. quick: sync, wake-up and two voice "
                  "slot types; data slot types with library-assembled payloads are exercised under C01/C07.", "6/C13")
CLAIMED["C20"] = ("One operation (17 kinds, arguments from the pools, values symbolic) from EVERY valid state over 3 addresses (two sharing an IP) and 2 dynamic keys: no failure, "
                  "same object for the same address, growth only on an auto-creating look-up of an unseen address, patches change exactly the named fields/attrs of the matched "
                  "record (frame condition on every other record), representation invariant preserved (so the step composes to histories of any length); plus all histories "
                  "of depth 2 (3 in thorough) from the empty storage.", "6/C20")
CLAIMED["C17"] = ("One handler step from an arbitrary state (connected flag, 16-bit counter, registry over a pool) on structured datagrams with all six type bits, sn, option data "
                  "and payload fields symbolic and on fully symbolic raw datagrams of 0..10 octets: never raises; connect/close/data answered by exactly one ack with the same sn "
                  "and no payload; ack-bit datagrams never acknowledged or echoed; heartbeat echoed iff connected; connected flag and registry updates; registration answer with "
                  "incremented 16-bit sn. Two handlers back to back fall silent within 4 rounds (heartbeat echoes excepted). All histories of depth 3 over 8 message classes.", "6/C17")
CLAIMED["C18"] = ("P2P: one step from every storage state (3 peers, two sharing an IP; presence and registration symbolic) on FULLY symbolic datagrams of 0..22 octets from a "
                  "symbolic peer: non-reject answers only for registered sources or as the registration answer, destinations, exactly the single-byte reject for unregistered "
                  "requests, registration only through the sender's own registration request, other records untouched; histories of depth 2. RDAC: every step 0..14 x "
                  "{expected prefix, other prefix, symbolic prefix, 1-octet resets} with symbolic tails: advance only on the expected response, restart on reset, other peer's "
                  "step untouched, completion callback exactly on 13->14; a complete run with interleaving.", "6/C18")
CLAIMED["C07"] = ("Per (rate, mode, length, preamble count) one symbolic run over ALL payload contents and both addresses: generator -> as_bytes -> from_bytes -> Terminal: burst count, "
                  "preamble count-down, exactly one started / one data-ended, header pad and block counts, block typing, CRC-9 ok on every confirmed block, data == payload || pad, "
                  "trailing CRC-32 == independent reference. Lengths bounded around the 1-3 block boundaries (rate 3/4 confirmed: single block only).", "6/C07")
CLAIMED["C15"] = ("Documents generated from the tables of the current source: every LRRP document id x element tokens with symbolic canonical values (all values of each token type), "
                  "ordered pairs of token types, buffers of two documents, inline constant tables, documents assembled through get_token: parsing terminates, token ids / values / "
                  "attributes / tables as written, every document re-serialises to the identical bytes, announced lengths account for the buffer. Inherited tables: known finding.", "6/C15")
CLAIMED["C08"] = ("All histories of depth 2 over a 10-class burst alphabet and of depth 3 over a 6-class core alphabet (library-serialised bursts; data-block octets and group address "
                  "symbolic; blocks-to-follow / preamble counts from small pools), a monitor over the observer log: processing never fails, 'ended' only after an open 'started' "
                  "of the same kind with the right header type, idle + fresh stream id afterwards, A-F labelling, rx sequence numbers mod 256 with restart, raising observers, "
                  "two timeslots; the blocks handed over are exactly the PDUs received on that timeslot since the start (also for 5-burst interleavings of two timeslots). One step from a state "
                  "with an ARBITRARY 8-bit sequence counter and last voice label covers the two unbounded counters. Histories beyond the depths are not claimed.", "6/C08")
CLAIMED["C19"] = ("2-safety: g(B) in the import-time state vs. g(B) after f(A) started from the import-time state (the library's process-global state is reset between the reference "
                  "call and the history), for ~110 codec entry points (CRC, FEC, PDU, burst incl. default-constructed, every implemented Hytera (service, opcode), Motorola) with ALL "
                  "arguments symbolic and a symbolic wall clock; every ordered pair inside a family plus every g against the burst / CRC-CCITT / BPTC-decode entry points: same result "
                  "(or same failure), argument buffers unchanged, mutable defaults unchanged, results are fresh objects. thorough: all ordered pairs and histories of length 3 inside the families.", "6/C19")
NOT_YET = {}
props = [json.loads(l) for l in open(os.path.join(V, "properties.jsonl"))]
checks = []
na = []
for p in props:
    i = p["id"]
    if i in CLAIMED:
        text, ref = CLAIMED[i]
        checks.append(dict(property_id=i, quick_cmd="./check %s --tier quick" % i, thorough_cmd="./check %s --tier thorough" % i,
                           evidence_file="/verif/evidence/%s.json" % i, replay_cmd_template="./check %s --replay {path}" % i, engine="sxl",
                           level_claimed=dict(category="other", text="Bounded verification by symbolic execution + SMT. " + text, design_ref="DESIGN.md §" + ref),
                           level_note=NOTE, technique=TECH))
    else:
        na.append(dict(property_id=i, reason=NOT_YET.get(i, "harness not built yet in this session (engine exists; see DESIGN.md §6/%s for the planned encoding) — not claimed until its check runs clean" % i)))
m = dict(version=1, setup_cmd="./setup.sh",
         hooks=dict(guard="OKDMR_VERIF", enable="no source changes in /repo: OKDMR_VERIF=1 is set inside the check process, which then imports okdmr.dmrlib through the sxl import hook (AST rewriting at import time)",
                    baseline_off_cmd="cd /repo && /venv/bin/python -m pytest -ra -q -p no:cacheprovider --timeout=900 --continue-on-collection-errors",
                    source_commits=[], add_only=True),
         engines=[dict(name="sxl", path="/verif/sxl", serves_properties=sorted(CLAIMED), kind_free_text="symbolic executor for Python by import-time AST lifting; GF(2) XOR-normal-form bit domain; z3 back end with Gauss-Jordan/affine-atom CEGAR")],
         checks=checks, not_applicable=na,
         notes="Exit codes of ./check: 0 held within bounds; 1 replayed violation (VIOLATION line); 2 inconclusive (solver time-out / cap / vacuity / translator self-check).")
json.dump(m, open(os.path.join(V, "MANIFEST.json"), "w"), indent=1)
print("claimed", sorted(CLAIMED), "na", len(na))
