#!/bin/bash
# usage: tools/vet_mutant.sh <dir with patch.diff demo.py meta.json>  — confirms in a scratch worktree: clean demo passes; patched: tests pass, demo fails
set -u
D=$(readlink -f $1); WT=/tmp/vet_wt_$$
git -C /repo worktree add -q --detach $WT HEAD || exit 3
cd $WT
PYTHONPATH=$WT /venv/bin/python $D/demo.py >/dev/null 2>&1; c0=$?
git apply $D/patch.diff || { echo "patch does not apply"; cd /; git -C /repo worktree remove --force $WT; exit 3; }
t=$(PYTHONPATH=$WT /venv/bin/python -m pytest -q -p no:cacheprovider --timeout=900 2>&1 | tail -n 1)
PYTHONPATH=$WT /venv/bin/python $D/demo.py >/dev/null 2>&1; c1=$?
cd /; git -C /repo worktree remove --force $WT
echo "clean_demo_exit=$c0 patched_demo_exit=$c1 tests: $t"
[ $c0 -eq 0 ] && [ $c1 -ne 0 ] && echo "$t" | grep -q "^204 passed" && echo VETTED
