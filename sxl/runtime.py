"""sxl.runtime — the `_sx_` namespace the rewritten modules call into."""
import builtins
import enum
import numpy as _np
from sxl.bits import Bit, bxor, band, bor, bnot, bite, tobit, conj, disj, CTX, next_serial
from sxl import bits as _bits
from sxl.ints import SInt
from sxl.sbytes import SBytes, int_from_bytes
from sxl import explore
from sxl.explore import PathAbort, Inconclusive, Violation

Control = (PathAbort, Inconclusive, Violation)


class MergeFail(Exception):
    pass


# what ends a speculative (predicated) execution of a branch and makes the site fall back to forking: a merge the engine cannot
# represent, or ANY ordinary exception raised while a branch ran under a symbolic condition (it may belong to the other side only)
SpecFail = Exception


class OpaqueStr(str):
    """text whose content depends on symbolic values; only ever flows into logs / repr"""
    def __eq__(self, o):
        raise Inconclusive("comparison of symbolic text")
    def __ne__(self, o):
        raise Inconclusive("comparison of symbolic text")
    __hash__ = str.__hash__
    def __add__(self, o): return OpaqueStr("<sym-str>")
    def __radd__(self, o): return OpaqueStr("<sym-str>")
    def strip(self, *a): return self


class _Unbound:
    def __repr__(self):
        return "<UNBOUND>"


UNBOUND = _Unbound()
STATS = dict(ite=0, pred_if=0, pred_fail=0, mux=0, mux_linear=0, choice=0, sweeps=0, sweep_queries=0, calls=0, alias_forks=0, inplace_merges=0)
GUARDS = []
FORCE_MERGE = False


def _sym(x):
    return x.__class__ is Bit or x.__class__ is SInt


def as_cond(c):
    """-> True | False | Bit"""
    if c.__class__ is Bit:
        return c
    if c.__class__ is SInt:
        r = (c != 0)
        return r
    if c.__class__ is Choice:
        return c.truth()
    return bool(c)


def truth(c):
    c = as_cond(c)
    if c is True or c is False:
        return c
    if GUARDS:
        raise MergeFail("decision inside predicated region")
    return explore.decide(c)


def fork(c):
    return explore.decide(c)


def cond(c):
    return as_cond(c)


def not_(x):
    c = as_cond(x)
    if c is True or c is False:
        return not c
    return bnot(c)


def _boolish(x):
    return x.__class__ is Bit or x is True or x is False


def _shortcircuit(thunks, is_or):
    """value semantics of  a or b or ...  /  a and b and ...  with symbolic truth values: the rest is evaluated speculatively under the
    guard that makes it reachable; anything that cannot be merged (or raises while speculative) falls back to forking"""
    v = thunks[0]()
    if len(thunks) == 1:
        return v
    c = as_cond(v)
    if c is True:
        return v if is_or else _shortcircuit(thunks[1:], is_or)
    if c is False:
        return _shortcircuit(thunks[1:], is_or) if is_or else v
    since = _bits.SERIAL[0]
    GUARDS.append((c, not is_or))
    try:
        try:
            rest = _shortcircuit(thunks[1:], is_or)
        finally:
            GUARDS.pop()
    except Control:
        raise
    except Exception:
        if GUARDS:
            raise MergeFail("short-circuit operand failed while speculative")
        taken = explore.decide(c)
        if taken == is_or:
            return v
        return _shortcircuit(thunks[1:], is_or)
    if _boolish(v) and _boolish(rest):
        r = bor(c, _t(rest)) if is_or else band(c, _t(rest))
        return r if r.__class__ is Bit else bool(r)
    try:
        # v was evaluated before the guard: it counts as pre-existing unless it is immutable
        return merge(c, v, rest, since) if is_or else merge(c, rest, v, since)
    except MergeFail:
        if GUARDS:
            raise
        taken = explore.decide(c)
        return (v if taken else rest) if is_or else (rest if taken else v)


def and_(*thunks):
    return _shortcircuit(thunks, False)


def or_(*thunks):
    return _shortcircuit(thunks, True)


def _cmp1(op, a, b):
    if op == "==": return a == b
    if op == "!=": return a != b
    if op == "<": return a < b
    if op == "<=": return a <= b
    if op == ">": return a > b
    if op == ">=": return a >= b
    if op == "in": return contains(b, a)
    if op == "not in": return not_(contains(b, a))
    if op == "is": return is_(a, b)
    if op == "is not": return not_(is_(a, b))
    raise ValueError(op)


def compare(left, ops, *thunks):
    acc = 1
    cur = left
    for op, t in zip(ops, thunks):
        nxt = t()
        r = as_cond(_cmp1(op, cur, nxt))
        if r is False:
            return False
        if r is not True:
            acc = band(acc, r)
        cur = nxt
    return acc if acc.__class__ is Bit else True


def is_(a, b):
    if a.__class__ is Choice:
        return a.eq_identity(b)
    if b.__class__ is Choice:
        return b.eq_identity(a)
    return a is b


def contains(container, item):
    if isinstance(container, Choice):
        container = container.force()
    if container.__class__ is dict and (has_sym_keys(container) or _symkey(item)):
        r = disj(_t(as_cond(eq_any(item, e))) for e in container)
        return r if r.__class__ is Bit else bool(r)
    if _sym(item) or item.__class__ is Choice or (isinstance(item, tuple) and any(_sym(e) or e.__class__ is Choice for e in item)):
        if isinstance(container, (list, tuple, set, frozenset)) or isinstance(container, dict):
            return disj(_t(as_cond(eq_any(item, e))) for e in container) if True else None
        if isinstance(container, type) and issubclass(container, enum.Enum):
            return disj(_t(as_cond(eq_any(item, m))) for m in container)
    elif isinstance(container, (list, tuple)) and any(_sym(e) or e.__class__ is Choice for e in container):
        r = disj(_t(as_cond(eq_any(item, e))) for e in container)
        return r if r.__class__ is Bit else bool(r)
    return item in container


def eq_any(a, b):
    if isinstance(a, tuple) and isinstance(b, tuple):
        if len(a) != len(b):
            return False
        r = conj(_t(as_cond(eq_any(x, y))) for x, y in zip(a, b))
        return r if r.__class__ is Bit else bool(r)
    return a == b


def _t(x):
    if x.__class__ is Bit:
        return x
    return 1 if x else 0


# ---------------------------------------------------------------------------- merging
def serial():
    return _bits.SERIAL[0]


def _alias_guard(a, b, since):
    """a merged value is a NEW object.  That is only faithful when neither operand can be referenced from elsewhere, i.e. both were
    created inside the speculative region (creation stamp >= since): otherwise `x = <new> if c else <existing object>` followed by an
    in-place change of x (or of the existing object through another reference) would lose the aliasing Python has.  Such merges are
    refused (the site forks instead)."""
    if since is None:
        return
    for v in (a, b):
        ser = getattr(v, "_ser", None)
        if ser is None or ser <= since:
            STATS["alias_forks"] += 1
            raise MergeFail("merging a pre-existing mutable object would break aliasing")


def merge(c, a, b, since=None):
    if a is b:
        return a
    if a is UNBOUND or b is UNBOUND:
        raise MergeFail("unbound on one side")
    from bitarray import bitarray
    ca, cb = a.__class__, b.__class__
    if ca is bitarray and cb is bitarray:
        if len(a) != len(b) or a.endian() != b.endian():
            raise MergeFail("bitarray shape")
        _alias_guard(a, b, since)
        return a._new([bite(c, x, y) for x, y in zip(a._b, b._b)])
    if isinstance(a, (bool, Bit)) and isinstance(b, (bool, Bit)) and not (ca is int or cb is int):
        r = sweep_bit(bite(c, _t(a), _t(b)))
        return r if r.__class__ is Bit else bool(r)
    if isinstance(a, (int, Bit, SInt)) and isinstance(b, (int, Bit, SInt)):
        A, B = SInt.of(a), SInt.of(b)
        w = max(A.width(), B.width())
        return norm_int(SInt.from_tc([bite(c, x, y) for x, y in zip(A.tc(w), B.tc(w))]))
    if isinstance(a, (bytes, SBytes)) and isinstance(b, (bytes, SBytes)) and len(a) == len(b):
        from sxl.sbytes import SByteArray
        if isinstance(a, SByteArray) or isinstance(b, SByteArray):
            _alias_guard(a, b, since)
            return SByteArray([merge(c, x, y) for x, y in zip(list(a), list(b))])
        return SBytes([merge(c, x, y) for x, y in zip(list(a), list(b))])
    if isinstance(a, _np.ndarray) and isinstance(b, _np.ndarray):
        if a.shape != b.shape:
            raise MergeFail("ndarray shape")
        _alias_guard(a, b, since)
        out = _np.empty(a.shape, dtype=object)
        fa, fb = _np.asarray(a, dtype=object), _np.asarray(b, dtype=object)
        for idx in _np.ndindex(a.shape):
            out[idx] = merge(c, fa[idx], fb[idx])
        return out.view(SxNd)
    if isinstance(a, list) and isinstance(b, list) and len(a) == len(b):
        if since is not None:
            STATS["alias_forks"] += 1
            raise MergeFail("lists carry no creation stamp: merging could break aliasing")
        return [merge(c, x, y) for x, y in zip(a, b)]
    if isinstance(a, tuple) and isinstance(b, tuple) and len(a) == len(b):
        return tuple(merge(c, x, y, since) for x, y in zip(a, b))
    try:
        # NB: a symbolic `a == b` is a declared case split here (Bit.__bool__ forks): on the branch where the two are equal either may be returned
        if type(a) is type(b) and a == b:
            return a
    except Exception:
        pass
    if isinstance(a, str) and isinstance(b, str):
        return OpaqueStr("<sym-str>")
    if _leaf(a) and _leaf(b):
        return Choice.ite(c, a, b)
    raise MergeFail("cannot merge %s / %s" % (ca.__name__, cb.__name__))


def norm_int(x):
    if x.__class__ is SInt:
        x = x.norm()
        if x.__class__ is SInt:
            return sweep_int(x)
    return x


def _leaf(v):
    return v is None or isinstance(v, (enum.Enum, str, Choice)) or (isinstance(v, int) and not isinstance(v, bool))


def ite(c, ta, tb):
    c = as_cond(c)
    if c is True:
        return ta()
    if c is False:
        return tb()
    STATS["ite"] += 1
    since = _bits.SERIAL[0]
    GUARDS.append((c, True))
    try:
        a = ta()
    except MergeFail:
        GUARDS.pop()
        return ta() if explore.decide(c) else tb()
    except Control:
        GUARDS.pop()
        raise
    except Exception:
        GUARDS.pop()
        return ta() if explore.decide(c) else tb()
    GUARDS[-1] = (c, False)
    try:
        b = tb()
    except MergeFail:
        GUARDS.pop()
        return ta() if explore.decide(c) else tb()
    except Control:
        GUARDS.pop()
        raise
    except Exception:
        GUARDS.pop()
        return ta() if explore.decide(c) else tb()
    GUARDS.pop()
    try:
        return merge(c, a, b, since)
    except MergeFail:
        return a if explore.decide(c) else b


def peek(thunk):
    try:
        return thunk()
    except (NameError, AttributeError, KeyError, IndexError):
        return UNBOUND


def peek_item(thunk):
    """value of a subscript target (obj[i]); storing into a subscript copies the values in, so a snapshot of an ndarray row — which numpy
    hands out as a VIEW of the live memory — has to be a copy to be a snapshot at all"""
    v = peek(thunk)
    if isinstance(v, _np.ndarray):
        c = _np.array(v, dtype=v.dtype, copy=True)
        return c.view(SxNd) if v.dtype == object else c
    return v


class AugSnap:
    """pre-state of the target of an augmented assignment that may be mutated IN PLACE (bitarray +=, list +=, ...): the object itself and a
    copy of its content.  Speculative branches mutate the real object (every alias sees it, as in Python); between and after the branches
    its content is put back / replaced by the merged content IN PLACE, so identity and aliasing are exactly Python's."""
    __slots__ = ("orig", "copy")

    def __init__(self, orig, copy):
        self.orig, self.copy = orig, copy


class AugVal:
    __slots__ = ("content",)

    def __init__(self, content):
        self.content = content


def _mutable_container(v):
    from bitarray import bitarray
    from sxl.sbytes import SByteArray
    return isinstance(v, (list, dict, set, bytearray, bitarray, SByteArray, SymArray)) or isinstance(v, _np.ndarray)


def _set_content(obj, src):
    """obj's content := src's content, in place"""
    from bitarray import bitarray
    from sxl.sbytes import SByteArray
    if isinstance(obj, bitarray):
        obj._b[:] = list(src._b)
    elif isinstance(obj, SByteArray):
        obj.o[:] = list(src.o)
    elif isinstance(obj, SymArray):
        obj.a[:] = list(src.a)
    elif isinstance(obj, _np.ndarray):
        if obj.shape != src.shape:
            raise MergeFail("in-place content of different shape")
        obj[...] = src
    elif isinstance(obj, (list, bytearray)):
        obj[:] = src
    elif isinstance(obj, (dict, set)):
        obj.clear()
        obj.update(src)
    else:
        raise MergeFail("no in-place content for %s" % type(obj).__name__)


def peek_copy(thunk):
    """pre-state snapshot of a target that the branch may mutate in place"""
    v = peek(thunk)
    if v is UNBOUND:
        return v
    import copy
    if _mutable_container(v):
        return AugSnap(v, copy.copy(v))
    return v


def peek_after(thunk, old):
    """value of a target after a speculative branch; an object that was mutated in place is captured by content"""
    v = peek(thunk)
    if old.__class__ is AugSnap and v is old.orig:
        import copy
        return AugVal(copy.copy(v))
    return v


def unsnap(old):
    """the value to re-bind a target to when a speculative branch is undone (an in-place mutated object gets its content back)"""
    if old.__class__ is AugSnap:
        _set_content(old.orig, old.copy)
        return old.orig
    return old


def merge_target(c, a, b, old, since, is_subscript, is_aug):
    if a.__class__ is AugVal or b.__class__ is AugVal:
        if a.__class__ is AugVal and b.__class__ is AugVal:
            m = merge(c, a.content, b.content, None)
            _set_content(old.orig, m)
            STATS["inplace_merges"] += 1
            return old.orig
        raise MergeFail("one branch mutates the object in place, the other re-binds the name")
    return merge(c, a, b, since)


def bound(x):
    return x is not UNBOUND


def enter(c, pol):
    GUARDS.append((c, pol))
    if pol:
        STATS["pred_if"] += 1


def leave():
    GUARDS.pop()


def unwind():
    STATS["pred_fail"] += 1
    while GUARDS:
        GUARDS.pop()


# ---------------------------------------------------------------------------- sweeping
SWEEP = True
_sig_rep = {}
_sweep_solver = None


def sweep_bit(b):
    """replace a non-affine bit by an equivalent simpler one (solver-proved under the path condition)"""
    if not SWEEP or b.__class__ is not Bit or b.is_affine or explore.CURRENT is None:
        return b
    s = b.sig()
    cand = None
    if s == 0:
        cand = 0
    elif s == (1 << 256) - 1:
        cand = 1
    else:
        cand = _sig_rep.get(s)
        if cand is None:
            c2 = _sig_rep.get(s ^ ((1 << 256) - 1))
            if c2 is not None:
                cand = bnot(c2)
    if cand is None:
        _sig_rep[s] = b                 # full FRAIG: every swept node may represent later equivalent ones
        return b
    if cand.__class__ is Bit and cand.key == b.key:
        return b
    ex = explore.CURRENT
    STATS["sweep_queries"] += 1
    import z3
    from sxl.bits import to_z3
    global _sweep_solver
    if _sweep_solver is None:
        _sweep_solver = z3.Solver()
        _sweep_solver.set("timeout", 2000)
    _sweep_solver.push()
    _sweep_solver.add(z3.Xor(b.z3(), to_z3(cand)))
    res = _sweep_solver.check()
    _sweep_solver.pop()
    if res == z3.unsat:                 # unconditional equivalence (no path condition involved)
        STATS["sweeps"] += 1
        return cand
    return b


def register_rep(b):
    if b.__class__ is Bit and b.is_affine:
        _sig_rep.setdefault(b.sig(), b)


def sweep_int(x):
    if not SWEEP or explore.CURRENT is None:
        return x
    if len(x.terms) == 1 and x.const == 0:
        (c, a), = x.terms.values()
        if c == 1 and any(bb.__class__ is Bit and not bb.is_affine for bb in a.bits):
            nb = [sweep_bit(bb) for bb in a.bits]
            return SInt.from_bits(nb)
    return x


# ---------------------------------------------------------------------------- value summaries
class Choice:
    """guarded set of python leaf values:  [(Bit|1 guard, value)], guards mutually exclusive and exhaustive"""
    __slots__ = ("alts", "origin")

    def __init__(self, alts, origin=None):
        self.alts = alts
        self.origin = origin      # the symbolic value an Enum(value) look-up was made with: member.value IS that value under each guard

    @staticmethod
    def make(alts):
        # merge equal values, drop false guards
        out = []
        for g, v in alts:
            if g.__class__ is not Bit and not g:
                continue
            for i, (g2, v2) in enumerate(out):
                if v2 is v or (type(v2) is type(v) and not isinstance(v, enum.Enum) and v2 == v):
                    out[i] = (bor(g2, g), v2)
                    break
            else:
                out.append((g, v))
        if len(out) == 1:
            return out[0][1]
        STATS["choice"] += 1
        return Choice(out)

    @staticmethod
    def ite(c, a, b):
        aa = a.alts if a.__class__ is Choice else [(1, a)]
        bb = b.alts if b.__class__ is Choice else [(1, b)]
        return Choice.make([(band(c, g), v) for g, v in aa] + [(band(bnot(c), g), v) for g, v in bb])

    def map(self, f):
        res = [(g, f(v)) for g, v in self.alts]
        r = res[0][1]
        for g, v in res[1:]:
            r = merge(g, v, r)
        return r

    def __eq__(self, o):
        if o.__class__ is Choice:
            return disj(band(band(g1, g2), _t(v1 == v2)) for g1, v1 in self.alts for g2, v2 in o.alts)
        r = disj(band(g, _t(as_cond(v == o))) for g, v in self.alts)
        return r if r.__class__ is Bit else bool(r)

    def __ne__(self, o):
        return not_(self.__eq__(o))

    def eq_identity(self, o):
        r = disj(g for g, v in self.alts if v is o)
        return r if r.__class__ is Bit else bool(r)

    def truth(self):
        r = disj(g for g, v in self.alts if v)
        return r if r.__class__ is Bit else bool(r)

    def __hash__(self):
        return 0x53594D           # like every symbolic value: keyed containers compare by == and fork on the answer

    def force(self):
        for g, v in self.alts[:-1]:
            if explore.decide(g):
                return v
        return self.alts[-1][1]

    def __getattr__(self, name):
        if name.startswith("__"):
            raise AttributeError(name)
        if (name == "value" or name == "_value_") and self.origin is not None:
            return self.origin
        # members of one Enum class: run the (python-level) method ONCE with the merged value as self, so that self.value is the
        # original symbolic value (exact under every guard) instead of a multiplexer over the members' constants
        if self.origin is not None:
            cls0 = type(self.alts[0][1])
            if isinstance(self.alts[0][1], enum.Enum) and all(type(v) is cls0 for _, v in self.alts):
                import types as _types
                fn = cls0.__dict__.get(name)
                if isinstance(fn, _types.FunctionType):
                    me = self
                    return lambda *a, **k: fn(me, *a, **k)
        vals = []
        for g, v in self.alts:
            try:
                vals.append((g, getattr(v, name)))
            except AttributeError:
                # this alternative (e.g. None) has no such attribute: Python raises on the paths where it is the value.  An alternative that
                # cannot be the value under the current path condition is dropped; otherwise the error propagates as it always did
                if g.__class__ is Bit and explore.CURRENT is not None and not explore.CURRENT.feasible(g):
                    continue
                raise
        if not vals:
            raise AttributeError(name)
        if all(callable(x) for _, x in vals):
            def dist(*a, **k):
                return Choice([(g, None) for g, _ in vals])._zipcall([x for _, x in vals], a, k)
            return dist
        r = vals[0][1]
        for g, v in vals[1:]:
            r = merge(g, v, r)
        return r

    def _zipcall(self, fns, a, k):
        res = [f(*a, **k) for f in fns]
        r = res[0]
        for (g, _), v in list(zip(self.alts, res))[1:]:
            r = merge(g, v, r)
        return r

    def to_int(self):
        return self.map(lambda v: v)

    def __index__(self):
        return self.force().__index__()

    def __bool__(self):
        return explore.decide(_t(self.truth())) if self.truth().__class__ is Bit else bool(self.truth())

    def __repr__(self):
        return "<Choice %s>" % ", ".join(repr(v) for _, v in self.alts)

    def __deepcopy__(self, memo):
        return self

    def __format__(self, spec):
        return repr(self)

    # arithmetic on int-valued choices
    def _arith(self):
        return self.map(lambda v: v)

    def __add__(self, o): return self._arith() + o
    def __radd__(self, o): return o + self._arith()
    def __sub__(self, o): return self._arith() - o
    def __rsub__(self, o): return o - self._arith()
    def __mul__(self, o): return self._arith() * o
    def __rmul__(self, o): return self._arith() * o
    def __and__(self, o): return self._arith() & o
    def __lt__(self, o): return self._arith() < o
    def __gt__(self, o): return self._arith() > o
    def __le__(self, o): return self._arith() <= o
    def __ge__(self, o): return self._arith() >= o


def enum_lookup(cls, value):
    """Enum(value) with symbolic value -> Choice over members; the residual goes through the real _missing_"""
    alts = []
    hit = 0
    for m in cls:
        if isinstance(m.value, tuple) and isinstance(value, tuple):
            g = _t(as_cond(eq_any(value, m.value)))
        else:
            g = _t(as_cond(m.value == value)) if isinstance(m.value, int) and not isinstance(m.value, bool) else 0
        if g.__class__ is Bit or g:
            alts.append((g, m))
            hit = bor(hit, g)
    miss = bnot(hit)
    if miss.__class__ is Bit:
        if GUARDS:
            raise MergeFail("enum residual inside predicated region")
        if explore.decide(miss):
            # residual path: the real _missing_ protocol, with `value` constrained by the path condition
            return enum.Enum.__new__(cls, value) if False else _enum_missing(cls, value)
    elif miss:
        return _enum_missing(cls, value)
    r = Choice.make(alts)
    if r.__class__ is Choice:
        r.origin = value
    return r


def _enum_missing(cls, value):
    try:
        exc = None
        result = cls._missing_(value)
    except Control:
        raise
    except Exception as e:
        exc = e
        result = None
    if isinstance(result, cls) or (result.__class__ is Choice):
        return result
    ve = ValueError("%r is not a valid %s" % (value, cls.__qualname__))
    if result is None and exc is None:
        raise ve
    if exc is None:
        exc = TypeError("error in %s._missing_: returned %r instead of None or a valid member" % (cls.__name__, result))
    raise exc


# ---------------------------------------------------------------------------- look-ups
def _table_ints(seq):
    from bitarray import bitarray
    if all(isinstance(e, int) and not isinstance(e, bool) for e in seq):
        if min(seq) < 0:
            return None
        return list(seq), max(max(seq).bit_length(), 1), None
    if all(e.__class__ is bitarray and all(x.__class__ is not Bit for x in e._b) for e in seq) and len({len(e) for e in seq}) == 1 and len({e.endian() for e in seq}) == 1:
        w = len(seq[0])
        tab = [sum(int(x) << (w - 1 - j) for j, x in enumerate(e._b)) for e in seq]
        return tab, w, seq[0]
    return None


_lin_cache = {}


def mux(seq, idx):
    """seq[idx] for a concrete table and symbolic index"""
    STATS["mux"] += 1
    idx = SInt.of(idx)
    lo, hi = idx.interval()
    n = len(seq)
    if lo < 0 or hi >= n:
        inb = band(_t(as_cond(idx >= 0)), _t(as_cond(idx < n)))
        if GUARDS:
            raise MergeFail("possible IndexError inside predicated region")
        if not explore.decide(inb):
            raise IndexError("list index out of range")
    ti = _table_ints(seq)
    k = max(1, (n - 1).bit_length())
    ib = (idx.tc(k + 1)[:k])
    for _b in ib:
        register_rep(_b)
    if ti is None:
        # generic: ite chain via merge
        r = seq[n - 1]
        for j in reversed(range(n - 1)):
            r = merge(_t(as_cond(idx == j)), seq[j], r)
        return r
    tab, w, proto = ti
    tab = tab + [0] * ((1 << k) - n)
    key = (tuple(tab), w)
    lin = _lin_cache.get(key)
    if lin is None:
        lin = tab[0] == 0 and all(tab[i] == _xb(tab, i) for i in range(1 << k))
        _lin_cache[key] = lin
    if lin:
        STATS["mux_linear"] += 1
        bits = []
        for j in range(w):
            r = 0
            for b in range(k):
                if (tab[1 << b] >> j) & 1:
                    r = bxor(r, ib[b])
            bits.append(r)
    else:
        def rec(lo_, level, j):
            if level < 0:
                return (tab[lo_] >> j) & 1
            a = rec(lo_, level - 1, j)
            b = rec(lo_ + (1 << level), level - 1, j)
            return bite(ib[level], b, a)
        bits = [rec(0, k - 1, j) for j in range(w)]
    if proto is not None:
        return proto._new([bits[w - 1 - j] for j in range(w)])
    return norm_int(SInt.from_bits(bits))


def _xb(tab, i):
    r = 0
    b = 0
    while i >> b:
        if (i >> b) & 1:
            r ^= tab[1 << b]
        b += 1
    return r


def _symkey(k):
    c = k.__class__
    if c is Bit or c is SInt or c is SBytes:
        return True
    if c is tuple:
        return any(_symkey(e) for e in k)
    return False


_symdict_cache = {}


def has_sym_keys(d):
    """does this dict hold symbolic keys (inserted through their constant hash)?  cached per (id, len)"""
    n = len(d)
    if n == 0 or n > 4096:
        return False
    hit = _symdict_cache.get(id(d))
    if hit is not None and hit[0] == n and hit[2] is d:
        return hit[1]
    flag = any(_symkey(k) for k in d)
    if len(_symdict_cache) > 10000:
        _symdict_cache.clear()
    _symdict_cache[id(d)] = (n, flag, d)
    return flag


def getitem(obj, key):
    if obj.__class__ is dict and has_sym_keys(obj) and not (key.__class__ is Bit or key.__class__ is SInt or key.__class__ is Choice):
        return dict_lookup(obj, key)
    if key.__class__ is SBytes and obj.__class__ is dict:
        return dict_lookup(obj, key)
    if key.__class__ is Bit or key.__class__ is SInt:
        if isinstance(obj, (list, tuple)):
            return mux(obj, key)
        if isinstance(obj, dict):
            return dict_lookup(obj, key)
        if isinstance(obj, SymArray):
            return mux(obj.a, key)
    elif key.__class__ is Choice:
        return key.map(lambda k: obj[k])
    elif isinstance(key, tuple) and isinstance(obj, dict) and any(_sym(e) or e.__class__ is Choice for e in key):
        return dict_lookup(obj, key)
    elif isinstance(key, slice) and (_sym(key.start) or _sym(key.stop)) and not isinstance(obj, SBytes):
        key = slice(None if key.start is None else key.start.__index__(), None if key.stop is None else key.stop.__index__(), key.step)
    if obj.__class__ is Choice:
        return obj.map(lambda o: o[key])
    return obj[key]


def dict_lookup(d, key, default=UNBOUND):
    """d[key] / d.get(key, default) with a symbolic key (or symbolic stored keys): later entries win, like overwriting"""
    alts = []
    hit = 0
    for k, v in d.items():
        g = _t(as_cond(eq_any(key, k)))
        if g.__class__ is Bit or g:
            alts.append((g, v))
            hit = bor(hit, g)
    miss = bnot(hit)
    if miss.__class__ is Bit or miss:
        if default is UNBOUND:
            if miss.__class__ is Bit:
                if GUARDS:
                    raise MergeFail("possible KeyError in predicated region")
                if explore.decide(miss):
                    raise KeyError(key)
            else:
                raise KeyError(key)
        else:
            alts.insert(0, (miss, default))
    try:
        r = alts[0][1]
        for g, v in alts[1:]:
            r = merge(g, v, r)
        return r
    except MergeFail:
        if GUARDS:
            raise
        # values that cannot be merged (e.g. None vs a number): case analysis instead, last matching entry first
        for g, v in reversed(alts[1:]):
            if explore.decide(g):
                return v
        return alts[0][1]


# ---------------------------------------------------------------------------- array('b') stand-in
class SymArray:
    def __init__(self, typecode, init=()):
        self.typecode = typecode
        self.a = list(init)

    def __len__(self): return len(self.a)
    def __iter__(self): return iter(self.a)
    def __getitem__(self, i):
        if isinstance(i, slice):
            return SymArray(self.typecode, self.a[i])
        if _sym(i):
            return mux(self.a, i)
        return self.a[i]
    def __setitem__(self, i, v):
        self.a[i.__index__()] = v
    def append(self, v): self.a.append(v)
    def extend(self, v): self.a.extend(v)
    def tolist(self): return list(self.a)

    @property
    def itemsize(self):
        return _ITEMSIZE[self.typecode]

    def _octets(self, x):
        n = self.itemsize
        if not _sym(x) and x < 0:
            x += 1 << (8 * n)
        return [(x >> (8 * k)) & 0xFF for k in range(n)]          # little-endian (native)

    def byteswap(self):
        n = self.itemsize
        if self.typecode in "bhilq" and n > 1:
            raise Inconclusive("byteswap of signed multi-octet items is not modelled")
        out = []
        for x in self.a:
            o = self._octets(x)[::-1]
            v = 0
            for k in range(n):
                v = v + o[k] * (1 << (8 * k))
            out.append(norm_int(v) if _sym(v) else v)
        self.a = out

    def tobytes(self):
        from sxl.sbytes import _mk
        octs = []
        for x in self.a:
            octs.extend(self._octets(x))
        return _mk([norm_int(o) if _sym(o) else o for o in octs])

    def __eq__(self, o):
        if isinstance(o, SymArray): o = o.a
        if len(o) != len(self.a): return False
        r = conj(_t(as_cond(x == y)) for x, y in zip(self.a, o))
        return r if r.__class__ is Bit else bool(r)
    __hash__ = None
    def __repr__(self): return "SymArray(%r,%r)" % (self.typecode, self.a)


# ---------------------------------------------------------------------------- numpy proxy
builtins_any = any


class SxNd(_np.ndarray):
    __array_priority__ = 100

    def __array_finalize__(self, obj):
        # creation stamp for the aliasing guard of merge(): a view (row, slice, transpose) shares its memory with `obj`, so it is as old as obj
        if obj is not None and self.base is obj and isinstance(obj, SxNd):
            self._ser = getattr(obj, "_ser", 0)
        else:
            self._ser = next_serial()

    # numpy's own any()/all() on an object array reduce with Python's `or`/`and`, i.e. they ask every element for its truth value one
    # after the other (one fork per symbolic element); the result as ONE symbolic condition keeps the caller's `if` mergeable
    def any(self, axis=None, out=None, keepdims=False, **kw):
        if axis is None and out is None and not keepdims and self.dtype == object:
            es = self.view(_np.ndarray).ravel().tolist()
            if builtins_any(_sym(e) for e in es):
                r = disj(_t(as_cond(e)) for e in es)
                return r if r.__class__ is Bit else bool(r)
        return _np.ndarray.any(self.view(_np.ndarray), axis=axis, out=out, keepdims=keepdims, **kw)

    def all(self, axis=None, out=None, keepdims=False, **kw):
        if axis is None and out is None and not keepdims and self.dtype == object:
            es = self.view(_np.ndarray).ravel().tolist()
            if builtins_any(_sym(e) for e in es):
                r = conj(_t(as_cond(e)) for e in es)
                return r if r.__class__ is Bit else bool(r)
        return _np.ndarray.all(self.view(_np.ndarray), axis=axis, out=out, keepdims=keepdims, **kw)

    def __array_ufunc__(self, ufunc, method, *inputs, **kw):
        ins = [i.view(_np.ndarray) if isinstance(i, SxNd) else i for i in inputs]
        if ufunc is _np.divmod and method == "__call__":
            a, b = ins
            fa = _np.asarray(a, dtype=object)
            q = _np.empty(fa.shape, dtype=object)
            r = _np.empty(fa.shape, dtype=object)
            for idx in _np.ndindex(fa.shape):
                q[idx], r[idx] = divmod(fa[idx], b)
            return q.view(SxNd), r.view(SxNd)
        if "out" in kw:
            kw["out"] = tuple(o.view(_np.ndarray) if isinstance(o, SxNd) else o for o in kw["out"])
        out = getattr(ufunc, method)(*ins, **kw)
        if isinstance(out, _np.ndarray) and out.dtype == object:
            return out.view(SxNd)
        return out


def _objarr(x):
    x = list(x)
    arr = _np.empty(len(x), dtype=object)
    for i, e in enumerate(x):
        arr[i] = e
    return arr.view(SxNd)


class NumpyProxy:
    def __getattr__(self, n):
        return getattr(_np, n)

    @staticmethod
    def ndarray(shape=None, dtype=None, **kw):
        return _np.ndarray(shape=shape, dtype=object).view(SxNd)

    @staticmethod
    def array(x, *a, **k):
        if isinstance(x, (list, tuple)) and any(_sym(e) for e in x):
            return _objarr(x)
        return _np.array(x, *a, **k)

    @staticmethod
    def dot(a, b):
        if getattr(a, "dtype", None) == object or getattr(b, "dtype", None) == object:
            r = _np.dot(_np.asarray(a, dtype=object), _np.asarray(b, dtype=object))
            return r.view(SxNd) if isinstance(r, _np.ndarray) else r
        return _np.dot(a, b)

    @staticmethod
    def append(arr, values, axis=None):
        r = _np.append(arr, values, axis)
        return r.view(SxNd) if r.dtype == object else r

    @staticmethod
    def array_equal(a, b):
        la, lb = _np.asarray(a, dtype=object), _np.asarray(b, dtype=object)
        if la.shape != lb.shape:
            return False
        r = conj(_t(as_cond(x == y)) for x, y in zip(la.ravel().tolist(), lb.ravel().tolist()))
        return r if r.__class__ is Bit else bool(r)


NP = NumpyProxy()


# ---------------------------------------------------------------------------- call dispatch
def _isinstance(obj, cls):
    if obj.__class__ is SInt or obj.__class__ is Bit:
        if cls is int or (isinstance(cls, tuple) and int in cls):
            return True
        if cls is bool or (isinstance(cls, tuple) and bool in cls):
            return obj.__class__ is Bit and (cls is bool or int not in cls)
        return isinstance(obj, cls)
    if isinstance(obj, SBytes):
        from sxl.sbytes import SByteArray
        mutable = isinstance(obj, SByteArray)
        classes = cls if isinstance(cls, tuple) else (cls,)
        if (bytearray in classes and mutable) or (bytes in classes and not mutable):
            return True
        return isinstance(obj, cls)
    from sxl.sstr import SStr
    if obj.__class__ is SStr:
        classes = cls if isinstance(cls, tuple) else (cls,)
        return str in classes or isinstance(obj, cls)
    if obj.__class__ is Choice:
        rs = {isinstance(v, cls) for _, v in obj.alts}
        if len(rs) == 1:
            return rs.pop()
        return isinstance(obj.force(), cls)
    return isinstance(obj, cls)


def _int(x=0, base=None):
    from sxl.sfloat import SDyad
    if x.__class__ is SDyad:
        return x.trunc()
    if base is None and (x.__class__ is SInt or x.__class__ is Bit):
        return x if x.__class__ is SInt else SInt.of(x)
    if x.__class__ is Choice:
        return x.map(int)
    from sxl.sstr import SBin
    if x.__class__ is SBin:
        return x.to_int(base if base is not None else 10)
    if base is None:
        return int(x)
    return int(x, base)


def _bin(x):
    if x.__class__ is Bit:
        x = SInt.of(x)
    if x.__class__ is SInt:
        from sxl.sstr import SBin
        lo, hi = x.interval()
        if lo < 0:
            if not explore.decide(_t(as_cond(x >= 0))):
                raise Inconclusive("bin() of a negative symbolic int")
        if lo >= 0:
            from sxl.sstr import LazyBin
            return LazyBin(x)
        n = x.bit_length()            # forks on the bit length
        if n == 0:
            return "0b0"
        b = x.tc()[:-1] if lo < 0 else x.ubits()
        return SBin(["0", "b", "1"] + [b[i] for i in reversed(range(n - 1))])
    return bin(x)


def _int_to_bytes(x, *a, **k):
    if x.__class__ is Bit:
        x = SInt.of(x)
    return x.to_bytes(*a, **k)


def _bool(x=False):
    c = as_cond(x)
    return c


def _bytes(x=b"", *a):
    if isinstance(x, SBytes):
        return SBytes(list(x.o)) if x.__class__ is not SBytes else x
    if isinstance(x, (list, tuple)) and any(_sym(e) for e in x):
        return SBytes(x)
    if hasattr(x, "__iter__") and not isinstance(x, (bytes, bytearray, str)):
        x = list(x)
        if any(_sym(e) for e in x):
            return SBytes(x)
    return bytes(x, *a)


def _bytearray(x=b"", *a):
    from sxl.sbytes import SByteArray
    if isinstance(x, SBytes):
        return SByteArray(list(x.o))
    if isinstance(x, (list, tuple)) and any(_sym(e) for e in x):
        return SByteArray(x)
    return bytearray(x, *a)


def _token_bytes(n=32):
    from sxl.sbytes import sym_bytes
    _token_bytes.n += 1
    return sym_bytes(n, "token%d" % _token_bytes.n)
_token_bytes.n = 0


def _abs(x):
    return abs(x)


def _range(*a):
    if any(_sym(x) for x in a):
        if len(a) == 2:
            d = a[1] - a[0]
            if not _sym(d):
                return [a[0] + i for i in range(int(d))]
        return range(*[x.__index__() for x in a])
    return range(*a)


def _len(x):
    return len(x)


_ITEMSIZE = {"b": 1, "B": 1, "h": 2, "H": 2, "i": 4, "I": 4, "l": 8, "L": 8, "q": 8, "Q": 8}


def _array(typecode, init=()):
    if isinstance(init, (bytes, bytearray, SBytes)):
        # array(typecode, bytes) == frombytes: native (little-endian) items
        n = _ITEMSIZE.get(typecode)
        if n is None or typecode in "bhilq" and n > 1:
            raise Inconclusive("array(%r, bytes) is not modelled" % typecode)
        octs = list(init)
        if len(octs) % n:
            raise ValueError("bytes length not a multiple of item size")
        items = []
        for i in range(0, len(octs), n):
            v = 0
            for k in range(n):
                v = v + octs[i + k] * (1 << (8 * k))
            if typecode == "b":
                v = v - 256 * (v >> 7)
            items.append(norm_int(v) if _sym(v) else v)
        return SymArray(typecode, items)
    return SymArray(typecode, init)


# ---- struct (standard sizes: byte-order prefix < > ! =; native '@' alignment is refused)
_STRUCT_CODES = {"x": (1, None), "c": (1, None), "b": (1, True), "B": (1, False), "?": (1, False), "h": (2, True), "H": (2, False), "i": (4, True), "I": (4, False),
                 "l": (4, True), "L": (4, False), "q": (8, True), "Q": (8, False)}


def _struct_items(fmt):
    import re
    if isinstance(fmt, bytes):
        fmt = fmt.decode("ascii")
    fmt = fmt.replace(" ", "")
    if not fmt or fmt[0] not in "<>!=":
        raise Inconclusive("struct format %r: native size / alignment is not modelled" % fmt)
    big = fmt[0] in ">!"
    items = []
    for cnt, code in re.findall(r"(\d*)([a-zA-Z?])", fmt[1:]):
        n = int(cnt) if cnt else 1
        if code == "s":
            items.append(("s", n, None))
        elif code in _STRUCT_CODES:
            for _ in range(n):
                items.append((code,) + _STRUCT_CODES[code])
        else:
            raise Inconclusive("struct code %r is not modelled" % code)
    return big, items


def _struct_calcsize(fmt):
    return sum(it[1] for it in _struct_items(fmt)[1])


def _struct_unpack_from(fmt, buffer, offset=0):
    import struct as _st
    if not isinstance(buffer, SBytes):
        return _st.unpack_from(fmt, buffer, offset)
    big, items = _struct_items(fmt)
    size = sum(it[1] for it in items)
    octs = list(buffer)
    if offset < 0:
        offset += len(octs)
    if offset < 0 or offset + size > len(octs):
        raise _st.error("unpack_from requires a buffer of at least %d bytes for unpacking %d bytes at offset %d (actual buffer size is %d)" % (offset + size, size, offset, len(octs)))
    out = []
    pos = offset
    for code, n, signed in items:
        chunk = octs[pos:pos + n]
        pos += n
        if code == "x":
            continue
        if code in ("s", "c"):
            from sxl.sbytes import _mk
            out.append(_mk(chunk))
            continue
        v = int_from_bytes(SBytes(chunk) if builtins_any(_sym(o) for o in chunk) else bytes(chunk), "big" if big else "little", signed=bool(signed))
        if code == "?":
            v = as_cond(v != 0)
        out.append(v)
    return tuple(out)


def _struct_unpack(fmt, buffer):
    import struct as _st
    if not isinstance(buffer, SBytes):
        return _st.unpack(fmt, buffer)
    if len(buffer) != _struct_calcsize(fmt):
        raise _st.error("unpack requires a buffer of %d bytes" % _struct_calcsize(fmt))
    return _struct_unpack_from(fmt, buffer, 0)


def _struct_pack(fmt, *vals):
    import struct as _st
    if not builtins_any(_sym(v) or isinstance(v, SBytes) for v in vals):
        return _st.pack(fmt, *vals)
    big, items = _struct_items(fmt)
    from sxl.sbytes import _mk
    octs = []
    vi = 0
    for code, n, signed in items:
        if code == "x":
            octs.extend([0] * n)
            continue
        v = vals[vi]
        vi += 1
        if code in ("s", "c"):
            b = list(v)[:n]
            octs.extend(b + [0] * (n - len(b)))
            continue
        octs.extend(list(_int_to_bytes(v, n, "big" if big else "little", signed=bool(signed))))
    if vi != len(vals):
        raise _st.error("pack expected %d items for packing (got %d)" % (vi, len(vals)))
    return _mk(octs)


def _print(*a, **k):
    return None


_DISPATCH = {}


def _init_dispatch():
    import array as _array_mod
    _DISPATCH[isinstance] = _isinstance
    _DISPATCH[int] = _int
    _DISPATCH[bool] = _bool
    _DISPATCH[bytes] = _bytes
    _DISPATCH[range] = _range
    _DISPATCH[print] = _print
    _DISPATCH[int.from_bytes] = int_from_bytes
    _DISPATCH[int.to_bytes] = _int_to_bytes
    _DISPATCH[bin] = _bin
    _DISPATCH[bytearray] = _bytearray
    import secrets
    _DISPATCH[secrets.token_bytes] = _token_bytes
    _DISPATCH[_array_mod.array] = _array
    import struct as _struct_mod
    _DISPATCH[_struct_mod.unpack] = _struct_unpack
    _DISPATCH[_struct_mod.unpack_from] = _struct_unpack_from
    _DISPATCH[_struct_mod.pack] = _struct_pack
    import math
    from sxl import sfloat
    _DISPATCH[math.copysign] = sfloat.copysign


TABULATE_CALLS = set()   # pure functions tabulated over one small symbolic int argument (exhaustive concrete evaluation)
_tab_cache = {}


def _tabulated_call(f, a, k):
    sym_pos = [i for i, x in enumerate(a) if _sym(x)]
    if len(sym_pos) != 1 or k:
        return None
    i = sym_pos[0]
    x = SInt.of(a[i])
    lo, hi = x.interval()
    if lo < 0 or hi > 1023:
        return None
    key = (f, i, tuple(repr(y) for j, y in enumerate(a) if j != i), hi)
    tab = _tab_cache.get(key)
    if tab is None:
        tab = [f(*[v if j == i else y for j, y in enumerate(a)]) for v in range(hi + 1)]
        _tab_cache[key] = tab
        STATS["tabulations"] = STATS.get("tabulations", 0) + 1
    return mux(tab, x)


LAZY_CALLS = set()       # qualified names of pure bitarray-returning calls evaluated on first use of the result


def _lazy_call(f, a, k):
    from bitarray import bitarray

    class LazyBitarray(bitarray):
        __slots__ = ("_thunk", "_val")

        @property
        def _b(self):
            if self._val is None:
                STATS["lazy_forced"] = STATS.get("lazy_forced", 0) + 1
                v = self._thunk()
                self._val = v._b
                bitarray._endian.__set__(self, v._endian)
            return self._val

        @_b.setter
        def _b(self, v):
            self._val = v

    z = LazyBitarray.__new__(LazyBitarray)
    bitarray._endian.__set__(z, "big")
    z._val = None
    a2, k2 = _copier(a, k)
    z._thunk = lambda: f(*a2, **k2)
    STATS["lazy_calls"] = STATS.get("lazy_calls", 0) + 1
    return z


MERGE_CALLS = set()      # qualified names whose calls are summarised (explored locally, merged into one result)


def _copier(args, kwargs):
    import copy
    from bitarray import bitarray
    def cp(x):
        if isinstance(x, (bitarray, list, dict, bytearray)) or isinstance(x, _np.ndarray):
            return copy.deepcopy(x)
        return x
    return tuple(cp(x) for x in args), {k: cp(v) for k, v in kwargs.items()}


def summarized_call(f, a, k):
    ex = explore.CURRENT
    res = ex.summarize(f, a, k, merge, _copier)
    STATS["summaries"] = STATS.get("summaries", 0) + 1
    oks = [(g, r[1], a2) for g, r, a2, k2 in res if r[0] == "ok"]
    excs = [(g, r[1]) for g, r, a2, k2 in res if r[0] == "exc"]
    for g, e in excs:
        if explore.decide(g):
            raise e
    if not oks:
        raise PathAbort()
    out = oks[0][1]
    margs = list(oks[0][2])
    for g, v, a2 in oks[1:]:
        out = merge(g, v, out)
        margs = [merge(g, x, y) if x is not y else x for x, y in zip(a2, margs)]
    # write merged in-place effects back into the caller's mutable arguments
    from bitarray import bitarray
    for orig, m in zip(a, margs):
        if isinstance(orig, bitarray) and isinstance(m, bitarray):
            orig._b = m._b
        elif isinstance(orig, list) and isinstance(m, list):
            orig[:] = m
    return out


ENTERED = set()          # (module, qualname) of library callables actually entered through rewritten call sites


def call(f, /, *a, **k):
    STATS["calls"] += 1
    try:
        mod = f.__module__
        if mod is not None and mod.startswith("okdmr."):
            ENTERED.add((mod, f.__qualname__))
    except AttributeError:
        pass
    if TABULATE_CALLS:
        qn = getattr(f, "__qualname__", None)
        if qn in TABULATE_CALLS and any(_sym(x) for x in a):
            res = _tabulated_call(f, a, k)
            if res is not None:
                return res
    if LAZY_CALLS:
        qn = getattr(f, "__qualname__", None)
        if qn in LAZY_CALLS and explore.CURRENT is not None:
            return _lazy_call(f, a, k)
    if MERGE_CALLS:
        qn = getattr(f, "__qualname__", None)
        if qn in MERGE_CALLS and explore.CURRENT is not None and not GUARDS:
            return summarized_call(f, a, k)
    try:
        h = _DISPATCH.get(f)
    except TypeError:
        h = None
    if h is not None:
        return h(*a, **k)
    if isinstance(f, type) and issubclass(f, enum.Enum) and len(a) == 1 and not k:
        v = a[0]
        if v.__class__ is Bit or v.__class__ is SInt or (v.__class__ is tuple and any(_sym(e) for e in v)):
            return enum_lookup(f, v)
        if v.__class__ is Choice:
            return v.map(lambda x: f(x))
    # methods of builtin containers with symbolic arguments
    slf = getattr(f, "__self__", None)
    if slf is not None and not isinstance(slf, type):
        name = getattr(f, "__name__", "")
        if isinstance(slf, dict) and name == "get" and a and (_sym(a[0]) or a[0].__class__ is Choice or _symkey(a[0]) or has_sym_keys(slf) or (isinstance(a[0], tuple) and any(_sym(e) or e.__class__ is Choice for e in a[0]))):
            return dict_lookup(slf, a[0], a[1] if len(a) > 1 else None)
        if isinstance(slf, list) and name == "index" and a and isinstance(a[0], list) and any(_sym(e) for e in a[0]):
            return list_index(slf, a[0])
    return f(*a, **k)


def list_index(lst, item):
    """lst.index(item) with symbolic item: first match wins; ValueError on the residual path"""
    hit = 0
    alts = []
    for i, e in enumerate(lst):
        g = band(bnot(hit), _t(as_cond(eq_any_list(item, e))))
        if g.__class__ is Bit or g:
            alts.append((g, i))
        hit = bor(hit, g)
    miss = bnot(hit)
    if miss.__class__ is Bit:
        if GUARDS:
            raise MergeFail("possible ValueError in predicated region")
        if explore.decide(miss):
            raise ValueError("%r is not in list" % (item,))
    elif miss:
        raise ValueError("%r is not in list" % (item,))
    r = alts[0][1]
    for g, v in alts[1:]:
        r = merge(g, v, r)
    return r


def eq_any_list(a, b):
    if isinstance(a, list) and isinstance(b, list):
        if len(a) != len(b):
            return False
        r = conj(_t(as_cond(x == y)) for x, y in zip(a, b))
        return r if r.__class__ is Bit else bool(r)
    return a == b


def reset(seed=0):
    """fresh engine state for a new case (same process)"""
    from sxl.ints import Atom
    CTX.reset(seed)
    Atom._cache.clear()
    Atom._blast.clear()
    from sxl import ints as _ints
    _ints._ATLEAST.clear()
    _sig_rep.clear()
    _tab_cache.clear()
    del GUARDS[:]
    for k in list(STATS):
        STATS[k] = 0
    ENTERED.clear()
    global _sweep_solver
    _sweep_solver = None
    _token_bytes.n = 0


def patch_module_globals(module):
    """before exec: nothing (the module body must run with real builtins for class creation)"""
    return


def post_import(module):
    """after exec: route the module's `numpy` global through the proxy"""
    d = module.__dict__
    if d.get("numpy") is _np:
        d["numpy"] = NP


_init_dispatch()
