"""sxl.ints — Python `int` with symbolic content.

SInt = c0 + Σ coef_i · atom_i   (exact, unbounded; atoms are unsigned bit-vectors of Bits)
Blasting to two's complement happens lazily, at a width derived from the value interval, so no
wrap-around is ever introduced (Python int semantics).
"""
from sxl.bits import Bit, bxor, band, bor, bnot, bite, mk, tobit, conj, disj, CTX


class Atom:
    __slots__ = ("bits", "key", "hi", "serial")
    _cache = {}
    _blast = {}

    @staticmethod
    def get(bits):
        # strip constant-zero high bits
        bits = list(bits)
        while bits and bits[-1].__class__ is not Bit and bits[-1] == 0:
            bits.pop()
        key = tuple(b.key if b.__class__ is Bit else b for b in bits)
        a = Atom._cache.get(key)
        if a is None:
            a = Atom()
            a.bits = bits
            a.key = key
            a.hi = (1 << len(bits)) - 1
            a.serial = len(Atom._cache)
            Atom._cache[key] = a
        return a

    def is_const(self):
        return all(b.__class__ is not Bit for b in self.bits)

    def const(self):
        return sum(int(b) << i for i, b in enumerate(self.bits))


def _add_bits(x, y, w, carry=0):
    """ripple add modulo 2^w; x, y lists (LSB first) possibly shorter than w (zero extended)"""
    out = []
    c = carry
    lx, ly = len(x), len(y)
    for i in range(w):
        a = x[i] if i < lx else 0
        b = y[i] if i < ly else 0
        if a.__class__ is not Bit and b.__class__ is not Bit and c.__class__ is not Bit:
            s = a + b + c
            out.append(s & 1)
            c = s >> 1
            continue
        ab = bxor(a, b)
        out.append(bxor(ab, c))
        c = bxor(band(a, b), band(c, ab))
    return out


def _neg_bits(x, w):
    inv = [bnot(x[i]) if i < len(x) else 1 for i in range(w)]
    return _add_bits(inv, [1], w)


def _const_bits(v, w):
    v &= (1 << w) - 1
    return [(v >> i) & 1 for i in range(w)]


def _inconclusive(msg):
    from sxl.explore import Inconclusive
    return Inconclusive(msg)


_ATLEAST = {}


def _at_least(bits, k):
    """Bit: at least k of `bits` are set (sequential counter: ge[j] after each bit, j = 1..k)"""
    n = len(bits)
    if k <= 0:
        return 1
    if k > n:
        return 0
    key = (tuple(b.key if b.__class__ is Bit else b for b in bits), k)
    r = _ATLEAST.get(key)
    if r is not None:
        return r
    ge = [0] * (k + 1)          # ge[j]: at least j set among the bits seen so far; ge[0] = 1
    ge[0] = 1
    for b in bits:
        for j in range(k, 0, -1):
            ge[j] = bor(ge[j], band(ge[j - 1], b))
    if len(_ATLEAST) > 20000:
        _ATLEAST.clear()
    _ATLEAST[key] = ge[k]
    return ge[k]


class SInt:
    __slots__ = ("terms", "const", "_tc", "_iv")

    def __init__(self, terms, const):
        self.terms = terms      # dict atom.key -> (coef, atom)
        self.const = const
        self._tc = None
        self._iv = None

    # ------------------------------------------------------------------ construction
    @staticmethod
    def of(x):
        if x.__class__ is SInt:
            return x
        if x.__class__ is Bit:
            a = Atom.get([x])
            return SInt({a.key: (1, a)}, 0)
        if isinstance(x, bool):
            return SInt({}, int(x))
        if isinstance(x, int):
            return SInt({}, int(x))
        try:
            import numpy
            if isinstance(x, (numpy.integer, numpy.bool_)):
                return SInt({}, int(x))
        except ImportError:
            pass
        return NotImplemented

    @staticmethod
    def from_bits(bits):
        """unsigned, LSB first"""
        a = Atom.get(bits)
        if a.is_const():
            return a.const()
        return SInt({a.key: (1, a)}, 0)

    @staticmethod
    def from_tc(bits):
        """two's complement, LSB first (last bit = sign)"""
        if not bits:
            return 0
        lo = SInt.from_bits(bits[:-1])
        s = bits[-1]
        if s.__class__ is not Bit:
            return lo - (int(s) << (len(bits) - 1))
        return lo - SInt.of(s) * (1 << (len(bits) - 1))

    def norm(self):
        """-> python int when constant; a sum of non-overlapping shifted bit-vectors (byte packing: hi*256 + lo, int.from_bytes ...)
        becomes ONE atom holding the concatenated bits, so packing and unpacking are syntactic inverses"""
        if not self.terms:
            return self.const
        if len(self.terms) > 1 and self.const == 0:
            parts = []
            for c, a in self.terms.values():
                if c <= 0 or c & (c - 1):
                    return self
                parts.append((c.bit_length() - 1, a))
            parts.sort(key=lambda p: p[0])
            bits = []
            for sh, a in parts:
                if sh < len(bits):
                    return self
                bits.extend([0] * (sh - len(bits)))
                bits.extend(a.bits)
            if len(bits) > 4096:
                return self
            at = Atom.get(bits)
            return SInt({at.key: (1, at)}, 0)
        return self

    # ------------------------------------------------------------------ interval & blasting
    def interval(self):
        iv = self._iv
        if iv is None:
            lo = hi = self.const
            for c, a in self.terms.values():
                if c > 0:
                    hi += c * a.hi
                else:
                    lo += c * a.hi
            iv = self._iv = (lo, hi)
        return iv

    def width(self):
        """two's complement width sufficient for the whole interval"""
        lo, hi = self.interval()
        w = max(hi.bit_length(), (-lo - 1).bit_length() if lo < 0 else 0) + 1
        return w

    def tc(self, w=None):
        """two's complement bits (LSB first) of width w (default: exact width); value mod 2^w"""
        if w is None:
            w = self.width()
            if self._tc is not None and len(self._tc) == w:
                return self._tc
        ck = (tuple(sorted((a.serial, c) for c, a in self.terms.values())), self.const, w)
        hit = Atom._blast.get(ck)
        if hit is not None:
            return hit
        acc = _const_bits(self.const, w)
        for c, a in sorted(self.terms.values(), key=lambda ca: ca[1].serial):
            neg = c < 0
            c = abs(c)
            sh = 0
            part = None
            while c >> sh and sh < w:
                if (c >> sh) & 1:
                    t = [0] * sh + a.bits
                    part = t[:w] if part is None else _add_bits(part, t, w)
                sh += 1
            if part is None:
                continue
            if neg:
                part = _neg_bits(part, w)
            acc = _add_bits(acc, part, w)
        if w == self.width():
            self._tc = acc
        Atom._blast[ck] = acc
        return acc

    def ubits(self, w=None):
        """unsigned bits, requires value >= 0"""
        lo, hi = self.interval()
        if lo < 0:
            raise ValueError("ubits of possibly negative SInt")
        n = hi.bit_length()
        b = self.tc(n + 1)[:n]
        if w is not None:
            if w < n:
                raise ValueError("value may not fit")
            b = b + [0] * (w - n)
        return b

    def as_bit(self):
        lo, hi = self.interval()
        if lo < 0 or hi > 1:
            raise TypeError("SInt is not a single bit")
        if len(self.terms) == 1 and self.const == 0:
            (c, a), = self.terms.values()
            if c == 1 and len(a.bits) == 1:
                return a.bits[0]
        return self.tc(2)[0]

    # ------------------------------------------------------------------ linear arithmetic
    def _lin(self, o, so):
        if isinstance(o, float):
            from sxl.sfloat import SDyad
            return (SDyad(self, 0) + o) if so == 1 else (SDyad(self, 0) - o)
        o = SInt.of(o)
        if o is NotImplemented:
            return o
        t = dict(self.terms)
        for k, (c, a) in o.terms.items():
            if k in t:
                nc = t[k][0] + so * c
                if nc:
                    t[k] = (nc, a)
                else:
                    del t[k]
            else:
                t[k] = (so * c, a)
        return SInt(t, self.const + so * o.const).norm()

    def __add__(self, o): return self._lin(o, 1)
    __radd__ = __add__
    def __sub__(self, o): return self._lin(o, -1)
    def __rsub__(self, o):
        r = (-self)
        return r + o
    def __neg__(self):
        return SInt({k: (-c, a) for k, (c, a) in self.terms.items()}, -self.const)
    def __pos__(self): return self
    def __invert__(self): return (-self) - 1

    def __mul__(self, o):
        if isinstance(o, float):
            from sxl.sfloat import SDyad
            return SDyad(self, 0) * o
        if isinstance(o, (SInt, Bit)):
            o = SInt.of(o)
            if not o.terms:
                o = o.const
            else:
                return self._mul_sym(o)
        else:
            o2 = SInt.of(o)
            if o2 is NotImplemented:
                return o2
            o = o2.const
        if o == 0:
            return 0
        return SInt({k: (c * o, a) for k, (c, a) in self.terms.items()}, self.const * o)
    __rmul__ = __mul__

    def _mul_sym(self, o):
        la, ha = self.interval(); lb, hb = o.interval()
        if la < 0 or lb < 0:
            # sign-magnitude: |a|*|b| with the sign restored by a multiplexer
            sa, sb = tobit(self < 0), tobit(o < 0)
            P = SInt.of(abs(self) * abs(o))
            N = SInt.of(-P)
            neg = bxor(sa, sb)
            w = max(P.width(), N.width())
            r = SInt.from_tc([bite(neg, x, y) for x, y in zip(N.tc(w), P.tc(w))])
            return r.norm() if r.__class__ is SInt else r
        x, y = self.ubits(), o.ubits()
        w = len(x) + len(y)
        acc = [0] * w
        for i, yb in enumerate(y):
            row = [0] * i + [band(xb, yb) for xb in x]
            acc = _add_bits(acc, row, w)
        return SInt.from_bits(acc)

    def __truediv__(self, o):
        from sxl.sfloat import SDyad
        if isinstance(o, int) and not isinstance(o, bool) and o > 0 and o & (o - 1) == 0:
            return SDyad(self, o.bit_length() - 1)
        from sxl.explore import Inconclusive
        raise Inconclusive("true division of a symbolic int by %r (only powers of two are exact dyadics)" % (o,))

    def __lshift__(self, k):
        return self * (1 << int(k))
    def __rlshift__(self, o):
        return o << int(self)

    # ------------------------------------------------------------------ bit-level
    def _pair_tc(self, o):
        o = SInt.of(o)
        if o is NotImplemented:
            return None, None, 0
        w = max(self.width(), o.width())
        return self.tc(w), o.tc(w), w

    def _bitop(self, o, f):
        x, y, w = self._pair_tc(o)
        if x is None:
            return NotImplemented
        return SInt.from_tc([f(a, b) for a, b in zip(x, y)])

    def __and__(self, o):
        # fast path: non-negative constant mask -> low bits only (two's complement truncation is exact)
        if isinstance(o, int) and not isinstance(o, bool) and o >= 0:
            n = o.bit_length()
            if n == 0:
                return 0
            x = self.tc(n)
            return SInt.from_bits([xb if (o >> i) & 1 else 0 for i, xb in enumerate(x)])
        return self._bitop(o, band)
    __rand__ = __and__
    def __or__(self, o): return self._bitop(o, bor)
    __ror__ = __or__
    def __xor__(self, o): return self._bitop(o, bxor)
    __rxor__ = __xor__

    def __rshift__(self, k):
        k = int(k)
        b = self.tc()
        if k >= len(b):
            b = [b[-1]]
        else:
            b = b[k:]
        return SInt.from_tc(b)

    def __mod__(self, m):
        if isinstance(m, (SInt, Bit)):
            m = int(m)
        if m > 0 and m & (m - 1) == 0:
            k = m.bit_length() - 1
            return SInt.from_bits(self.tc(k)) if k else 0
        q, r = self._divmod_const(m)
        return r

    def __floordiv__(self, m):
        if isinstance(m, (SInt, Bit)):
            m = int(m)
        if m > 0 and m & (m - 1) == 0:
            return self >> (m.bit_length() - 1)
        q, r = self._divmod_const(m)
        return q

    def __divmod__(self, m):
        return self // m, self % m

    def _divmod_const(self, m):
        if m <= 0:
            raise _inconclusive("division by non-positive constant is not modelled")
        lo, hi = self.interval()
        if lo < 0:
            raise _inconclusive("division of a possibly negative symbolic int by a non power of two is not modelled")
        x = self.ubits()
        n = len(x)
        mb = m.bit_length()
        # restoring division, MSB first; remainder register width mb+1
        rem = []
        q = [0] * n
        for i in reversed(range(n)):
            rem = [x[i]] + rem          # rem = rem*2 + x[i]
            rem = rem[: mb + 1]
            # ge = rem >= m ; diff = rem - m
            w = mb + 1
            diff = _add_bits(rem, _const_bits(-m, w), w)
            # no borrow <=> rem >= m : carry out of (rem + ~m + 1); recompute via sign of diff in w+1 bits
            ext = _add_bits(rem + [0] * (w + 1 - len(rem)), _const_bits(-m, w + 1), w + 1)
            ge = bnot(ext[-1])
            q[i] = ge
            rem = [bite(ge, d, r0) for d, r0 in zip(diff, rem + [0] * (w - len(rem)))]
        return SInt.from_bits(q), SInt.from_bits(rem[:mb])

    def __abs__(self):
        lo, hi = self.interval()
        if lo >= 0:
            return self
        if hi < 0:
            return -self
        b = self.tc()
        s = b[-1]
        n = (-self).tc(len(b) + 1)
        p = self.tc(len(b) + 1)
        return SInt.from_tc([bite(s, x, y) for x, y in zip(n, p)])

    # ------------------------------------------------------------------ comparisons  (-> Bit | bool)
    def _cmp_lt(self, o):
        d = self - o
        if d.__class__ is not SInt:
            return d < 0
        lo, hi = d.interval()
        if hi < 0:
            return True
        if lo >= 0:
            return False
        card = d._cardinality()
        if card is not None:
            sign, bits, c0 = card
            if sign > 0:
                # sum(bits) + c0 < 0   <=>   not (sum(bits) >= -c0)
                return _tobool(bnot(_at_least(bits, -c0)))
            # -sum(bits) + c0 < 0  <=>   sum(bits) >= c0 + 1
            return _tobool(_at_least(bits, c0 + 1))
        return _tobool(d.tc()[-1])

    def _cardinality(self):
        """(sign, [bits], const) when the value is  sign * (sum of >= 4 distinct single bits) + const — the population-count shape.
        Thresholds on such sums are encoded as a sequential counter (monotone AND/OR network) instead of a chain of binary adders:
        in XOR-normal form an adder chain becomes very long XOR clauses that CDCL solvers handle badly."""
        if len(self.terms) < 4:
            return None
        sign = 0
        bits = []
        for c, a in self.terms.values():
            if len(a.bits) != 1 or (c != 1 and c != -1):
                return None
            if sign and c != sign:
                return None
            sign = c
            bits.append(a.bits[0])
        return sign, bits, self.const

    def __lt__(self, o):
        if SInt.of(o) is NotImplemented: return NotImplemented
        return self._cmp_lt(o)
    def __ge__(self, o):
        if SInt.of(o) is NotImplemented: return NotImplemented
        return _not(self._cmp_lt(o))
    def __gt__(self, o):
        o2 = SInt.of(o)
        if o2 is NotImplemented: return NotImplemented
        return o2._cmp_lt(self)
    def __le__(self, o):
        r = self.__gt__(o)
        return r if r is NotImplemented else _not(r)

    def __eq__(self, o):
        o2 = SInt.of(o)
        if o2 is NotImplemented:
            return NotImplemented
        # cheap bitwise form when both sides are plain non-negative vectors
        a = self._plain(); b = o2._plain()
        if a is not None and b is not None:
            n = max(len(a), len(b))
            return _tobool(conj(bnot(bxor(a[i] if i < len(a) else 0, b[i] if i < len(b) else 0)) for i in range(n)))
        d = self - o2
        if d.__class__ is not SInt:
            return d == 0
        # canonical sign of the difference: x == y and y == x must blast to the same circuit
        first = min(d.terms.values(), key=lambda ca: ca[1].serial)
        if first[0] < 0:
            d = -d
        lo, hi = d.interval()
        if lo > 0 or hi < 0:
            return False
        return _tobool(conj(bnot(x) for x in d.tc()))

    def __ne__(self, o):
        r = self.__eq__(o)
        return r if r is NotImplemented else _not(r)

    def _plain(self):
        """bits if self is  const  or  1*atom  (non-negative, no arithmetic needed)"""
        if not self.terms:
            if self.const < 0:
                return None
            return _const_bits(self.const, self.const.bit_length())
        if self.const == 0 and len(self.terms) == 1:
            (c, a), = self.terms.values()
            if c == 1:
                return a.bits
            if c > 0 and c & (c - 1) == 0:
                return [0] * (c.bit_length() - 1) + a.bits
        return None

    def __hash__(self):
        if not self.terms:
            return hash(self.const)
        return 0x53594D

    # ------------------------------------------------------------------ concretisation hooks
    def __bool__(self):
        from sxl import explore
        return explore.decide(self != 0)

    def __index__(self):
        if not self.terms:
            return self.const
        from sxl import explore
        return explore.concretize(self)

    __int__ = __index__
    def __trunc__(self): return self
    def __floor__(self): return self
    def __ceil__(self): return self
    def __round__(self, n=None): return self
    def __deepcopy__(self, memo): return self
    def __copy__(self): return self
    def __repr__(self):
        lo, hi = self.interval()
        return "<SInt %d terms in [%d,%d]>" % (len(self.terms), lo, hi)
    __str__ = __repr__
    def __format__(self, spec): return "<sym>"

    def to_bytes(self, length=1, byteorder="big", *, signed=False):
        from sxl.sbytes import SBytes
        from sxl import explore
        lo, hi = self.interval()
        if signed:
            if lo < -(1 << (8 * length - 1)) or hi >= (1 << (8 * length - 1)):
                fits = band(tobit((self >= -(1 << (8 * length - 1)))), tobit(self < (1 << (8 * length - 1))))
                if not explore.decide(fits):
                    raise OverflowError("int too big to convert")
            b = self.tc(8 * length) if self.width() <= 8 * length else self.tc()[: 8 * length]
            if len(b) < 8 * length:
                b = b + [b[-1]] * (8 * length - len(b))
        else:
            if lo < 0:
                if not explore.decide(self >= 0):
                    raise OverflowError("can't convert negative int to unsigned")
            if hi >= (1 << (8 * length)):
                if not explore.decide(self < (1 << (8 * length))):
                    raise OverflowError("int too big to convert")
            b = self.tc(8 * length + 1)[: 8 * length]
        octs = [SInt.from_bits(b[i : i + 8]) for i in range(0, 8 * length, 8)]
        if byteorder == "big":
            octs.reverse()
        return SBytes(octs)

    def bit_length(self):
        """bit length of a value known to be non-negative on this path (forks)"""
        from sxl import explore
        lo, hi = self.interval()
        for k in range(hi.bit_length() + 1):
            if explore.decide(self < (1 << k)):
                return k
        raise AssertionError


def _tobool(b):
    if b.__class__ is Bit:
        return b
    return bool(b)


def _not(b):
    if b.__class__ is Bit:
        return bnot(b)
    return not b


def _neg_cmp(s, o):
    return SInt.of(o)._cmp_lt(s)
