"""sxl.sbytes — bytes with symbolic octets (length concrete)."""
from sxl.bits import Bit, conj, bnot, bxor
from sxl.ints import SInt


def octet_bits(o):
    """MSB-first 8 bits of an octet (int | SInt | Bit)"""
    if isinstance(o, int):
        return [(o >> (7 - k)) & 1 for k in range(8)]
    o = SInt.of(o)
    b = o.ubits(8)
    return b[::-1]


def octet_from_bits(msb_first):
    r = SInt.from_bits(list(msb_first)[::-1])
    return r


class SBytes:
    __slots__ = ("o", "_ser")

    def __init__(self, octets):
        from sxl.bits import next_serial
        self._ser = next_serial()
        self.o = [x if isinstance(x, int) else (x.norm() if isinstance(x, SInt) else SInt.of(x)) for x in octets]

    def __len__(self):
        return len(self.o)

    def __iter__(self):
        return iter(self.o)

    def __getitem__(self, i):
        if isinstance(i, slice):
            i = _clamp_slice(i, len(self.o))
            return _mk(self.o[i])
        if isinstance(i, SInt) and i.terms:
            return _sym_index(self.o, i)
        return self.o[i.__index__()]

    def __add__(self, other):
        if isinstance(other, (bytes, bytearray)):
            return _mk(self.o + list(other))
        if isinstance(other, SBytes):
            return _mk(self.o + other.o)
        return NotImplemented

    def __radd__(self, other):
        if isinstance(other, (bytes, bytearray)):
            return _mk(list(other) + self.o)
        return NotImplemented

    def __mul__(self, n):
        return _mk(self.o * n)

    def __eq__(self, other):
        if isinstance(other, (bytes, bytearray)):
            other = list(other)
        elif isinstance(other, SBytes):
            other = other.o
        else:
            return NotImplemented
        if len(other) != len(self.o):
            return False
        r = conj(_t(a == b) for a, b in zip(self.o, other))
        return r if r.__class__ is Bit else bool(r)

    def __ne__(self, other):
        r = self.__eq__(other)
        if r is NotImplemented:
            return r
        return bnot(r) if r.__class__ is Bit else not r

    def __hash__(self):
        return 0x53594D

    def __bool__(self):
        return len(self.o) > 0

    def decode(self, encoding="utf-8", errors="strict"):
        """ASCII-range model: every symbolic octet must be < 128 (else the path is outside the model)"""
        from sxl.sstr import SStr
        from sxl import explore
        if encoding.lower().replace("_", "-") not in ("utf-8", "utf8", "ascii"):
            raise explore.Inconclusive("SBytes.decode(%r) not modelled" % encoding)
        small = conj(_t(x < 128) for x in self.o)
        is_ascii = encoding.lower() == "ascii"
        ok = explore.decide(small) if small.__class__ is Bit else bool(small)
        if not ok:
            if is_ascii and errors == "strict":
                # exact: the ascii codec rejects every octet >= 0x80
                raise UnicodeDecodeError("ascii", b"\x80", 0, 1, "ordinal not in range(128)")
            raise explore.Inconclusive("decoding symbolic non-ASCII UTF-8 is not modelled")
        return SStr(list(self.o))

    def hex(self, *a):
        return "".join("%02x" % x if isinstance(x, int) else "??" for x in self.o)

    def __repr__(self):
        return "SBytes(%s)" % self.hex()

    def __deepcopy__(self, memo):
        return self

    def __format__(self, spec):
        return repr(self)


def _t(x):
    if x.__class__ is Bit:
        return x
    return 1 if x else 0


def _mk(octs):
    if all(isinstance(x, int) for x in octs):
        return bytes(octs)
    return SBytes(octs)


def sym_bytes(n, prefix):
    from sxl.bits import CTX
    out = []
    for i in range(n):
        bits = [CTX.var("%s[%d].%d" % (prefix, i, k)) for k in range(8)]   # LSB first
        out.append(SInt.from_bits(bits))
    return SBytes(out)


def int_from_bytes(data, byteorder="big", *, signed=False):
    if isinstance(data, (bytes, bytearray)):
        return int.from_bytes(data, byteorder, signed=signed)
    if hasattr(data, "tobytes") and hasattr(data, "endian"):
        data = data.tobytes()            # buffer protocol of bitarray
        if isinstance(data, (bytes, bytearray)):
            return int.from_bytes(data, byteorder, signed=signed)
    octs = list(data.o if isinstance(data, SBytes) else data)
    if byteorder == "big":
        octs = octs[::-1]
    r = 0
    for i, o in enumerate(octs):
        r = r + (o << (8 * i) if isinstance(o, int) else o * (1 << (8 * i)))
    if signed and octs:
        top = octs[-1]
        sign = (top >> 7) if isinstance(top, int) else (top >> 7)
        r = r - sign * (1 << (8 * len(octs)))
    return r


class SByteArray(SBytes):
    """mutable variant (bytearray stand-in)"""
    __slots__ = ()
    __hash__ = None

    def __setitem__(self, i, v):
        if isinstance(i, slice):
            vals = list(v.o) if isinstance(v, SBytes) else list(v)
            if i.step not in (None, 1) and len(self.o[i]) != len(vals):
                raise ValueError("attempt to assign bytes of size %d to extended slice of size %d" % (len(vals), len(self.o[i])))
            self.o[i] = vals
        else:
            self.o[i.__index__()] = v

    def __getitem__(self, i):
        if isinstance(i, slice):
            return SByteArray(self.o[i])
        return self.o[i.__index__()]

    def append(self, v):
        self.o.append(v)

    def __iadd__(self, other):
        self.o.extend(list(other.o) if isinstance(other, SBytes) else list(other))
        return self

    def __deepcopy__(self, memo):
        return SByteArray(list(self.o))


def _sym_index(octs, i):
    """octs[i] for symbolic i: IndexError path when out of range, multiplexer otherwise"""
    from sxl import explore
    from sxl.bits import band, tobit
    n = len(octs)
    lo, hi = i.interval()
    if lo < -n or hi >= n:
        inb = i < n if lo >= 0 else band(tobit(i >= -n), tobit(i < n))
        if not explore.decide(inb if inb.__class__ is Bit else int(bool(inb))):
            raise IndexError("index out of range")
    if lo < 0:
        return octs[i.__index__()]           # negative symbolic index: concretise
    from sxl import runtime
    return runtime.mux(list(octs), i)


def _clamp_slice(sl, n):
    """slice bounds that are symbolic are forked only over min(bound, n) (all larger values mean 'to the end')"""
    from sxl import explore
    def cl(b):
        if isinstance(b, SInt) and b.terms:
            lo, hi = b.interval()
            if lo >= 0:
                for v in range(min(hi, n) + 1):
                    if v == n:
                        return n
                    if explore.decide(b == v if (b == v).__class__ is Bit else int(bool(b == v))):
                        return v
                return n
            return b.__index__()
        return b
    if sl.step not in (None, 1):
        return slice(None if sl.start is None else sl.start.__index__(), None if sl.stop is None else sl.stop.__index__(), sl.step)
    return slice(cl(sl.start), cl(sl.stop), sl.step)
