"""sxl.sstr — fixed-length strings of '0'/'1' characters with symbolic content (result of bin())."""
from sxl.bits import Bit, conj, bnot, bxor


class SBin:
    __slots__ = ("c",)

    def __init__(self, chars):
        self.c = list(chars)        # each: 1-char str | Bit (Bit b means '1' if b else '0')

    def __len__(self):
        return len(self.c)

    def __getitem__(self, i):
        if isinstance(i, slice):
            r = self.c[i]
            if all(isinstance(x, str) for x in r):
                return "".join(r)
            return SBin(r)
        x = self.c[i]
        return x if isinstance(x, str) else SBin([x])

    def __iter__(self):
        return (x if isinstance(x, str) else SBin([x]) for x in self.c)

    def __add__(self, o):
        if isinstance(o, str):
            return SBin(self.c + list(o))
        if isinstance(o, SBin):
            return SBin(self.c + o.c)
        return NotImplemented

    def __radd__(self, o):
        if isinstance(o, str):
            return SBin(list(o) + self.c)
        return NotImplemented

    def __eq__(self, o):
        if isinstance(o, SBin):
            oc = o.c
        elif isinstance(o, str):
            oc = list(o)
        else:
            return NotImplemented
        if len(oc) != len(self.c):
            return False
        acc = []
        for a, b in zip(self.c, oc):
            if isinstance(a, str) and isinstance(b, str):
                if a != b:
                    return False
                continue
            if isinstance(a, str):
                a, b = b, a
            # a is Bit
            if isinstance(b, str):
                if b == "1":
                    acc.append(a)
                elif b == "0":
                    acc.append(bnot(a))
                else:
                    return False
            else:
                acc.append(bnot(bxor(a, b)))
        r = conj(acc)
        return r if r.__class__ is Bit else bool(r)

    def __ne__(self, o):
        r = self.__eq__(o)
        if r is NotImplemented:
            return r
        return bnot(r) if r.__class__ is Bit else not r

    __hash__ = None

    def to_int(self, base):
        from sxl.ints import SInt
        assert base == 2
        bits = []
        for x in self.c:
            if isinstance(x, str):
                if x not in "01":
                    raise ValueError("invalid literal for int() with base 2")
                bits.append(int(x))
            else:
                bits.append(x)
        if not bits:
            raise ValueError("invalid literal for int() with base 2: ''")
        return SInt.from_bits(bits[::-1])

    def __repr__(self):
        return "SBin(%s)" % "".join(x if isinstance(x, str) else "?" for x in self.c)

    def __format__(self, spec):
        return repr(self)
