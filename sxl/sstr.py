"""sxl.sstr — fixed-length strings of '0'/'1' characters with symbolic content (result of bin())."""
from sxl.bits import Bit, conj, bnot, bxor


class SBin:
    __slots__ = ("c",)

    def __init__(self, chars):
        self.c = list(chars)        # each: 1-char str | Bit (Bit b means '1' if b else '0')

    def __len__(self):
        return len(self.c)

    def __getitem__(self, i):
        if isinstance(i, slice):
            r = self.c[i]
            if all(isinstance(x, str) for x in r):
                return "".join(r)
            return SBin(r)
        x = self.c[i]
        return x if isinstance(x, str) else SBin([x])

    def __iter__(self):
        return (x if isinstance(x, str) else SBin([x]) for x in self.c)

    def count(self, sub, *a):
        """str.count for a single character '0' / '1' (or any other single character, which can only match concrete positions)"""
        if a or not isinstance(sub, str) or len(sub) != 1:
            from sxl.explore import Inconclusive
            raise Inconclusive("SBin.count(%r) is not modelled" % (sub,))
        from sxl.ints import SInt
        n = 0
        for x in self.c:
            if isinstance(x, str):
                n = n + (1 if x == sub else 0)
            elif sub == "1":
                n = n + SInt.of(x)
            elif sub == "0":
                n = n + SInt.of(bnot(x))
        return n

    def __add__(self, o):
        if isinstance(o, str):
            return SBin(self.c + list(o))
        if isinstance(o, SBin):
            return SBin(self.c + o.c)
        return NotImplemented

    def __radd__(self, o):
        if isinstance(o, str):
            return SBin(list(o) + self.c)
        return NotImplemented

    def __eq__(self, o):
        if isinstance(o, SBin):
            oc = o.c
        elif isinstance(o, str):
            oc = list(o)
        else:
            return NotImplemented
        if len(oc) != len(self.c):
            return False
        acc = []
        for a, b in zip(self.c, oc):
            if isinstance(a, str) and isinstance(b, str):
                if a != b:
                    return False
                continue
            if isinstance(a, str):
                a, b = b, a
            # a is Bit
            if isinstance(b, str):
                if b == "1":
                    acc.append(a)
                elif b == "0":
                    acc.append(bnot(a))
                else:
                    return False
            else:
                acc.append(bnot(bxor(a, b)))
        r = conj(acc)
        return r if r.__class__ is Bit else bool(r)

    def __ne__(self, o):
        r = self.__eq__(o)
        if r is NotImplemented:
            return r
        return bnot(r) if r.__class__ is Bit else not r

    __hash__ = None

    def to_int(self, base):
        from sxl.ints import SInt
        assert base == 2
        bits = []
        for x in self.c:
            if isinstance(x, str):
                if x not in "01":
                    raise ValueError("invalid literal for int() with base 2")
                bits.append(int(x))
            else:
                bits.append(x)
        if not bits:
            raise ValueError("invalid literal for int() with base 2: ''")
        return SInt.from_bits(bits[::-1])

    def __repr__(self):
        return "SBin(%s)" % "".join(x if isinstance(x, str) else "?" for x in self.c)

    def __format__(self, spec):
        return repr(self)


class LazyBin(SBin):
    """bin(x) of a symbolic non-negative int whose characters are only produced (by a fork on the bit length) when something looks at them;
    the population-count idiom bin(x).count("1") needs no fork at all"""
    __slots__ = ("x", "_forced")

    def __init__(self, x):
        self.x = x
        self._forced = None

    @property
    def c(self):
        if self._forced is None:
            x = self.x
            n = x.bit_length()            # forks on the bit length
            if n == 0:
                self._forced = list("0b0")
            else:
                b = x.ubits()
                self._forced = ["0", "b", "1"] + [b[i] for i in reversed(range(n - 1))]
        return self._forced

    @c.setter
    def c(self, v):
        self._forced = v

    def count(self, sub, *a):
        if self._forced is None and sub == "1" and not a:
            from sxl.ints import SInt
            n = 0
            for b in self.x.ubits():
                n = n + (SInt.of(b) if b.__class__ is Bit else int(b))
            return n
        return SBin.count(self, sub, *a)


class SStr:
    """text of concrete length whose characters are symbolic code points in the ASCII range (0..127): utf-8 / ascii encoding is then the
    identity on octets.  Anything outside that range is not modelled (Inconclusive)."""
    __slots__ = ("c",)

    def __init__(self, codes):
        self.c = list(codes)

    def __len__(self):
        return len(self.c)

    def __bool__(self):
        return len(self.c) > 0

    def __hash__(self):
        return 0x53594D

    def encode(self, encoding="utf-8", errors="strict"):
        from sxl.sbytes import _mk
        if encoding.lower().replace("_", "-") not in ("utf-8", "utf8", "ascii", "latin-1", "latin1"):
            from sxl.explore import Inconclusive
            raise Inconclusive("SStr.encode(%r) not modelled" % encoding)
        return _mk(list(self.c))

    def __eq__(self, o):
        if isinstance(o, str):
            oc = [ord(x) for x in o]
        elif isinstance(o, SStr):
            oc = o.c
        else:
            return NotImplemented
        if len(oc) != len(self.c):
            return False
        acc = []
        for a, b in zip(self.c, oc):
            r = a == b
            if r is False:
                return False
            if r is not True:
                acc.append(r)
        r = conj(acc)
        return r if r.__class__ is Bit else bool(r)

    def __ne__(self, o):
        r = self.__eq__(o)
        if r is NotImplemented:
            return r
        return bnot(r) if r.__class__ is Bit else not r

    def __getitem__(self, i):
        if isinstance(i, slice):
            return SStr(self.c[i])
        return SStr([self.c[i]])

    def __add__(self, o):
        if isinstance(o, SStr):
            return SStr(self.c + o.c)
        if isinstance(o, str):
            return SStr(self.c + [ord(x) for x in o])
        return NotImplemented

    def __radd__(self, o):
        if isinstance(o, str):
            return SStr([ord(x) for x in o] + self.c)
        return NotImplemented

    def __repr__(self):
        return "SStr(%d chars)" % len(self.c)

    def __format__(self, spec):
        return "<sym-str>"

    def __deepcopy__(self, memo):
        return self
