"""sxl.crosscheck — second opinion on a sample of discharged obligations (DESIGN §3.5).

The obligation  pc ∧ ¬goal  is written out as SMT-LIB2 by an emitter of its own (it walks the XOR-normal-form DAG directly:
neither Bit.z3(), nor the affine-atom abstraction, nor the Gauss-Jordan layer, nor z3's printer are involved) and is decided by
cvc5 1.4.0 through its own parser.  z3's verdict on the abstraction and cvc5's verdict on the exact encoding must agree; a
disagreement makes the case inconclusive (exit 2), a cvc5 time-out is counted and reported, never taken as agreement."""
import time
from sxl.bits import Bit, CTX


def _cone(bits):
    seen, order, vars_ = set(), [], set()
    stack = [b for b in bits if b.__class__ is Bit]
    while stack:
        b = stack.pop()
        m = b.mask >> 1
        i = 0
        while m:
            if m & 1:
                vars_.add(i)
            m >>= 1
            i += 1
        for a in b.ands:
            if a not in seen:
                seen.add(a)
                order.append(a)
                x, y = CTX.and_nodes[a]
                if x.__class__ is Bit:
                    stack.append(x)
                if y.__class__ is Bit:
                    stack.append(y)
    return sorted(order), sorted(vars_)       # AND-node ids are created after their operands: ascending id = topological


def _term(b):
    if b.__class__ is not Bit:
        return "true" if b else "false"
    ts = []
    m = b.mask >> 1
    i = 0
    while m:
        if m & 1:
            ts.append("v%d" % i)
        m >>= 1
        i += 1
    for a in sorted(b.ands):
        ts.append("n%d" % a)
    if not ts:
        return "true" if b.mask & 1 else "false"
    e = ts[0] if len(ts) == 1 else "(xor %s)" % " ".join(ts)
    return "(not %s)" % e if b.mask & 1 else e


def smtlib(bits):
    nodes, vars_ = _cone(bits)
    out = ["(set-logic QF_UF)"]
    for i in vars_:
        out.append("(declare-const v%d Bool)" % i)
    for a in nodes:
        x, y = CTX.and_nodes[a]
        out.append("(define-fun n%d () Bool (and %s %s))" % (a, _term(x), _term(y)))
    for b in bits:
        out.append("(assert %s)" % _term(b))
    out.append("(check-sat)")
    return "\n".join(out), len(nodes), len(vars_)


def cvc5_verdict(smt, tlimit_ms):
    import cvc5
    s = cvc5.Solver()
    s.setOption("tlimit-per", str(int(tlimit_ms)))
    p = cvc5.InputParser(s)
    p.setStringInput(cvc5.InputLanguage.SMT_LIB_2_6, smt, "xc")
    sm = p.getSymbolManager()
    res = "unknown"
    while True:
        c = p.nextCommand()
        if c.isNull():
            break
        o = c.invoke(s, sm).strip()
        if o:
            if "error" in o:
                return "error: " + o[:200]
            res = o.splitlines()[-1].strip()
    return res


def check(bits, tlimit_ms=4000, max_nodes=60000):
    """-> (verdict 'sat'|'unsat'|'unknown'|'skipped'|'error…', and-nodes, vars, seconds)"""
    t = time.time()
    smt, nn, nv = smtlib(bits)
    if nn > max_nodes:
        return "skipped", nn, nv, 0.0
    try:
        v = cvc5_verdict(smt, tlimit_ms)
    except Exception as e:          # parser / solver failure: reported, never agreement
        v = "error: %s" % e
    return v, nn, nv, time.time() - t


def selftest():
    """canaries through the emitter + cvc5: a satisfiable and an unsatisfiable cone must come back as such"""
    from sxl.bits import band, bxor, bnot
    a, b, c = CTX.var("xc!a"), CTX.var("xc!b"), CTX.var("xc!c")
    maj = bxor(bxor(band(a, b), band(a, c)), band(b, c))
    r1 = check([maj, bnot(a), bnot(b)])[0]             # majority with two inputs false: unsat
    r2 = check([maj, bnot(a)])[0]                      # sat (b = c = 1)
    r3 = check([bxor(bxor(a, b), c), bxor(a, b), c])[0]   # parity contradiction: unsat
    return (r1, r2, r3) == ("unsat", "sat", "unsat"), (r1, r2, r3)


def solve_with_model(bits, tlimit_ms):
    """cvc5 as a fall-back decision procedure on the exact encoding: ('unsat', None) | ('sat', {variable name: 0/1}) | ('unknown', None)"""
    import cvc5
    smt, nn, nv = smtlib(bits)
    _nodes, vars_ = _cone(bits)
    s = cvc5.Solver()
    s.setOption("tlimit-per", str(int(tlimit_ms)))
    s.setOption("produce-models", "true")
    p = cvc5.InputParser(s)
    p.setStringInput(cvc5.InputLanguage.SMT_LIB_2_6, smt, "fb")
    sm = p.getSymbolManager()
    res = "unknown"
    while True:
        c = p.nextCommand()
        if c.isNull():
            break
        o = c.invoke(s, sm).strip()
        if o:
            if "error" in o:
                return "unknown", None
            res = o.splitlines()[-1].strip()
    if res == "unsat":
        return "unsat", None
    if res != "sat":
        return "unknown", None
    model = {n: 0 for n in CTX.var_names}
    byname = {}
    for t in sm.getDeclaredTerms():
        byname[str(t)] = t
    for i in vars_:
        t = byname.get("v%d" % i)
        if t is None:
            return "unknown", None
        model[CTX.var_names[i]] = 1 if s.getValue(t).getBooleanValue() else 0
    return "sat", model
