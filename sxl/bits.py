"""sxl.bits — Boolean domain: XOR-normal form  (affine mask  ⊕  set of AND nodes), hash-consed, with
random-simulation signatures and lazy z3 translation.

A Bit value  =  const ⊕ (⊕ vars in mask) ⊕ (⊕ AND-nodes in `ands`).
Python ints 0/1 stand for the constants everywhere outside this module (containers store int | Bit).
"""
import random
import z3

SERIAL = [0]            # creation stamps of mutable stand-in objects (aliasing guard of runtime.merge)


def next_serial():
    SERIAL[0] += 1
    return SERIAL[0]


SIGW = 256
_SIGMASK = (1 << SIGW) - 1


class Context:
    def __init__(self, seed=0):
        self.reset(seed)

    def reset(self, seed=0):
        self.var_index = {}       # name -> index
        self.var_names = []
        self.var_sig = []
        self.var_z3 = []
        self.and_nodes = []       # id -> (Bit a, Bit b)
        self.and_key = {}         # (key a, key b) -> id
        self.and_sig = []
        self.and_z3 = []
        self.bit_cache = {}       # (mask, ands) -> Bit   (weak canonical instances; keeps z3 memo)
        self.atoms = {}           # variable-mask -> (z3 Bool, index)   affine forms as propositional atoms
        self.atom_list = []       # index -> (mask, z3 Bool)
        self.and_z3a = []
        self.rng = random.Random(seed)
        self.stats = {"and_nodes": 0, "z3_terms": 0}

    def var(self, name):
        i = self.var_index.get(name)
        if i is None:
            i = len(self.var_names)
            self.var_index[name] = i
            self.var_names.append(name)
            self.var_sig.append(self.rng.getrandbits(SIGW))
            self.var_z3.append(z3.Bool(name))
        return mk(1 << (i + 1), _EMPTY)


CTX = Context()
_EMPTY = frozenset()


class Bit:
    __slots__ = ("mask", "ands", "_z3", "_sig", "_z3a")

    def __init__(self, mask, ands):
        self.mask = mask
        self.ands = ands
        self._z3 = None
        self._sig = None
        self._z3a = None

    def z3a(self, used=None):
        """abstract translation: the affine part is ONE propositional atom"""
        e = self._z3a
        if e is None:
            terms = []
            vm = self.mask & ~1
            if vm:
                terms.append(atom_for(vm))
            for a in sorted(self.ands):
                terms.append(_and_z3a(a))
            if not terms:
                e = z3.BoolVal(bool(self.mask & 1))
            else:
                e = terms[0]
                for t in terms[1:]:
                    e = z3.Xor(e, t)
                if self.mask & 1:
                    e = z3.Not(e)
            self._z3a = e
        return e

    # ---- structure
    @property
    def key(self):
        return (self.mask, self.ands)

    @property
    def is_affine(self):
        return not self.ands

    def __repr__(self):
        vs = [CTX.var_names[i] for i in range(len(CTX.var_names)) if (self.mask >> (i + 1)) & 1]
        parts = (["1"] if self.mask & 1 else []) + vs + ["&%d" % a for a in sorted(self.ands)]
        return "<" + "^".join(parts[:8]) + ("…" if len(parts) > 8 else "") + ">"

    # Symbolic values hash to one constant: a dict / set / functools cache then compares a symbolic key with every other symbolic
    # key it holds by == , whose truth value FORKS the path (Bit.__bool__), i.e. keyed containers get their exact semantics by
    # case analysis.  (Look-ups in containers that also hold concrete keys are lifted in runtime.getitem / contains / dict.get.)
    def __hash__(self):
        return 0x53594D

    # ---- operators (operands: Bit | 0 | 1 | bool)
    def __xor__(self, o):
        if o.__class__ is not Bit:
            o = _const(o)
            if o is NotImplemented:
                return o
            if o == 0:
                return self
            return mk(self.mask ^ 1, self.ands)
        return mk(self.mask ^ o.mask, self.ands ^ o.ands)

    __rxor__ = __xor__

    def __invert__(self):
        return mk(self.mask ^ 1, self.ands)

    def __and__(self, o):
        if o.__class__ is not Bit:
            o = _const(o)
            if o is NotImplemented:
                return o
            return self if o else 0
        return band(self, o)

    __rand__ = __and__

    def __or__(self, o):
        if o.__class__ is not Bit:
            o = _const(o)
            if o is NotImplemented:
                return o
            return 1 if o else self
        return bnot(band(bnot(self), bnot(o)))

    __ror__ = __or__

    def __eq__(self, o):
        if o.__class__ is not Bit:
            o = _const(o)
            if o is NotImplemented:
                return o
            return self if o else bnot(self)
        return bnot(bxor(self, o))

    def __ne__(self, o):
        if o.__class__ is not Bit:
            o = _const(o)
            if o is NotImplemented:
                return o
            return bnot(self) if o else self
        return bxor(self, o)

    def __bool__(self):
        from sxl import explore
        return explore.decide(self)

    def __index__(self):
        from sxl import explore
        return 1 if explore.decide(self) else 0

    __int__ = __index__

    def __deepcopy__(self, memo):
        return self

    def __copy__(self):
        return self

    # arithmetic on a bit promotes to SInt
    def _si(self):
        from sxl.ints import SInt
        return SInt.of(self)

    def __add__(self, o): return self._si() + o
    def __radd__(self, o): return o + self._si()
    def __sub__(self, o): return self._si() - o
    def __rsub__(self, o): return o - self._si()
    def __mul__(self, o): return self._si() * o
    def __rmul__(self, o): return self._si() * o
    def __lshift__(self, o): return self._si() << o
    def __rshift__(self, o): return self._si() >> o
    def __mod__(self, o): return self._si() % o
    def __divmod__(self, o): return divmod(self._si(), o)
    def __floordiv__(self, o): return self._si() // o
    def __lt__(self, o): return self._si() < o
    def __le__(self, o): return self._si() <= o
    def __gt__(self, o): return self._si() > o
    def __ge__(self, o): return self._si() >= o
    def __format__(self, spec): return "<sym>"

    # ---- simulation signature
    def sig(self):
        s = self._sig
        if s is None:
            s = _SIGMASK if self.mask & 1 else 0
            m = self.mask >> 1
            i = 0
            vs = CTX.var_sig
            while m:
                if m & 1:
                    s ^= vs[i]
                m >>= 1
                i += 1
            for a in self.ands:
                s ^= CTX.and_sig[a]
            self._sig = s
        return s

    # ---- z3
    def z3(self):
        e = self._z3
        if e is None:
            terms = []
            m = self.mask >> 1
            i = 0
            while m:
                if m & 1:
                    terms.append(CTX.var_z3[i])
                m >>= 1
                i += 1
            for a in sorted(self.ands):
                terms.append(_and_z3(a))
            if not terms:
                e = z3.BoolVal(bool(self.mask & 1))
            else:
                e = terms[0]
                for t in terms[1:]:
                    e = z3.Xor(e, t)
                if self.mask & 1:
                    e = z3.Not(e)
            self._z3 = e
            CTX.stats["z3_terms"] += 1
        return e


def atom_for(vm):
    t = CTX.atoms.get(vm)
    if t is None:
        if vm & (vm - 1) == 0:
            e = CTX.var_z3[vm.bit_length() - 2]
        else:
            e = z3.Bool("aff!%d" % len(CTX.atom_list))
        t = (e, len(CTX.atom_list))
        CTX.atoms[vm] = t
        CTX.atom_list.append((vm, e))
    return t[0]


def _and_z3a(a):
    e = CTX.and_z3a[a]
    if e is None:
        x, y = CTX.and_nodes[a]
        e = z3.And(x.z3a(), y.z3a())
        CTX.and_z3a[a] = e
    return e


def _and_z3(a):
    e = CTX.and_z3[a]
    if e is None:
        x, y = CTX.and_nodes[a]
        e = z3.And(x.z3(), y.z3())
        CTX.and_z3[a] = e
    return e


def _const(o):
    if o is True or o is False:
        return int(o)
    if o.__class__ is int:
        if o == 0 or o == 1:
            return o
        return NotImplemented
    try:
        import numpy
        if isinstance(o, (numpy.integer, numpy.bool_)) and int(o) in (0, 1):
            return int(o)
    except ImportError:
        pass
    return NotImplemented


def mk(mask, ands):
    """canonical constructor: returns int for constants"""
    if not ands and mask <= 1:
        return mask
    k = (mask, ands)
    b = CTX.bit_cache.get(k)
    if b is None:
        b = Bit(mask, ands)
        CTX.bit_cache[k] = b
    return b


def bnot(a):
    if a.__class__ is Bit:
        return mk(a.mask ^ 1, a.ands)
    return 1 - int(a)


def bxor(a, b):
    if a.__class__ is not Bit:
        a = int(a)
        if b.__class__ is not Bit:
            return a ^ int(b)
        return b if a == 0 else mk(b.mask ^ 1, b.ands)
    if b.__class__ is not Bit:
        return a if int(b) == 0 else mk(a.mask ^ 1, a.ands)
    return mk(a.mask ^ b.mask, a.ands ^ b.ands)


def band(a, b):
    if a.__class__ is not Bit:
        return b if int(a) else 0
    if b.__class__ is not Bit:
        return a if int(b) else 0
    ka, kb = a.key, b.key
    if ka == kb:
        return a
    if a.ands == b.ands and a.mask == b.mask ^ 1:
        return 0
    # single-variable / general AND node, hash-consed on operand keys (ordered)
    if (ka[0], sorted(ka[1])) > (kb[0], sorted(kb[1])):
        a, b, ka, kb = b, a, kb, ka
    k = (ka, kb)
    i = CTX.and_key.get(k)
    if i is None:
        i = len(CTX.and_nodes)
        CTX.and_nodes.append((a, b))
        CTX.and_key[k] = i
        CTX.and_sig.append(a.sig() & b.sig())
        CTX.and_z3.append(None)
        CTX.and_z3a.append(None)
        CTX.stats["and_nodes"] += 1
    return mk(0, frozenset((i,)))


def bor(a, b):
    return bnot(band(bnot(a), bnot(b)))


def bite(c, x, y):
    """c ? x : y"""
    if c.__class__ is not Bit:
        return x if int(c) else y
    d = bxor(x, y)
    if d.__class__ is not Bit:
        if d == 0:
            return x
        return bxor(y, c)          # x = ~y  ->  y ^ c
    return bxor(y, band(c, d))


def is_sym(b):
    return b.__class__ is Bit


def tobit(x):
    """Bit | 0 | 1 from bit-like python values (int/bool/numpy ints/SInt of one bit)"""
    if x.__class__ is Bit:
        return x
    c = _const(x)
    if c is not NotImplemented:
        return c
    from sxl.ints import SInt
    if isinstance(x, SInt):
        return x.as_bit()
    raise TypeError("not a bit: %r" % (x,))


def to_z3(b):
    if b.__class__ is Bit:
        return b.z3()
    return z3.BoolVal(bool(b))


def conj(bits):
    r = 1
    for b in bits:
        r = band(r, b)
        if r.__class__ is not Bit and r == 0:
            return 0
    return r


def disj(bits):
    r = 0
    for b in bits:
        r = bor(r, b)
        if r.__class__ is not Bit and r == 1:
            return 1
    return r
