"""sxl.kstream — stand-in for kaitaistruct.KaitaiStream over (possibly symbolic) bytes, so that GENERATED kaitai parsers run for real."""
from sxl.sbytes import SBytes, _mk, int_from_bytes


class SymKaitaiStream:
    def __init__(self, data):
        self._d = list(data.o) if isinstance(data, SBytes) else list(data)
        self._p = 0

    def _take(self, n):
        if self._p + n > len(self._d):
            raise EOFError("requested %d bytes, but only %d bytes available" % (n, len(self._d) - self._p))
        r = self._d[self._p:self._p + n]
        self._p += n
        return r

    def read_bytes(self, n):
        return _mk(self._take(n))

    def read_bytes_full(self):
        return _mk(self._take(len(self._d) - self._p))

    def is_eof(self):
        return self._p >= len(self._d)

    def pos(self):
        return self._p

    def size(self):
        return len(self._d)

    def seek(self, n):
        self._p = n

    def close(self):
        pass

    def _u(self, n, order):
        return int_from_bytes(_mk(self._take(n)), order)

    def read_u1(self): return self._u(1, "big")
    def read_u2be(self): return self._u(2, "big")
    def read_u2le(self): return self._u(2, "little")
    def read_u4be(self): return self._u(4, "big")
    def read_u4le(self): return self._u(4, "little")
    def read_u8be(self): return self._u(8, "big")
    def read_u8le(self): return self._u(8, "little")


def resolve_enum(enum_obj, value):
    """KaitaiStream.resolve_enum: the member for a defined value, the raw value otherwise"""
    from sxl import runtime
    from sxl.bits import Bit
    from sxl.ints import SInt
    if value.__class__ is Bit or value.__class__ is SInt:
        try:
            return runtime.enum_lookup(enum_obj, value)
        except ValueError:
            return value
    try:
        return enum_obj(value)
    except ValueError:
        return value
