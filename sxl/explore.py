"""sxl.explore — path exploration by re-execution, obligations, solver access."""
import time
import z3
from sxl.bits import Bit, bnot, band, to_z3, CTX, tobit


def affine_leaves(bit):
    """bit (must hold) as a conjunction of affine constraints: list of masks m meaning  m (as affine form) == 1; or None"""
    if bit.__class__ is not Bit:
        return [] if bit else None
    if not bit.ands:
        return [bit.mask]
    if bit.mask == 0 and len(bit.ands) == 1:
        (a,) = bit.ands
        x, y = CTX.and_nodes[a]
        lx = affine_leaves(x)
        if lx is None:
            return None
        ly = affine_leaves(y)
        if ly is None:
            return None
        return lx + ly
    return None


class Gauss:
    """affine part of the path condition in reduced row-echelon form over GF(2).
    rows: pivot bit position -> mask (bit 0 of the mask is the constant; row means mask == 0 as an affine form)"""
    def __init__(self):
        self.rows = {}

    def reduce(self, m):
        rows = self.rows
        if not rows:
            return m
        x = m >> 1
        pos = 1
        while x:
            if x & 1:
                r = rows.get(pos)
                if r is not None:
                    m ^= r
            x >>= 1
            pos += 1
        return m

    def add_true(self, mask):
        """constraint: affine form `mask` evaluates to 1  <=>  (mask ^ 1) == 0.  returns False if inconsistent"""
        m = self.reduce(mask ^ 1)
        if m == 0:
            return True
        if m == 1:
            return False
        p = m.bit_length() - 1
        for q, r in list(self.rows.items()):
            if (r >> p) & 1:
                self.rows[q] = r ^ m
        self.rows[p] = m
        return True

    def implied(self, mask):
        """is `mask == 1` implied / refuted?  -> True / False / None"""
        m = self.reduce(mask ^ 1)
        if m == 0:
            return True
        if m == 1:
            return False
        return None

    def copy(self):
        g = Gauss()
        g.rows = dict(self.rows)
        return g

    def model(self):
        """a satisfying assignment of the (consistent) system: free variables 0, pivots from their rows (RREF)"""
        m = {}
        for p, r in self.rows.items():
            m[CTX.var_names[p - 1]] = r & 1
        return {n: m.get(n, 0) for n in CTX.var_names}


class Inconclusive(BaseException):
    pass


class PathAbort(BaseException):
    """engine control: abandon the current path (infeasible assume)"""


class Violation(BaseException):
    def __init__(self, label, model):
        self.label, self.model = label, model


class Explorer:
    def __init__(self, max_paths=100000, solver_timeout_ms=60000, max_decisions=5000):
        self.trail = []           # [choice, exhausted]
        self.pos = 0
        self.pc = []              # Bits that hold on this path
        self.gauss = Gauss()
        self.nl_pc = 0            # number of non-affine constraints on the path
        self.lemmas = []
        self.solver = z3.Solver()
        self.solver.set("timeout", solver_timeout_ms)
        self.max_paths = max_paths
        self.max_decisions = max_decisions
        self.stats = dict(paths=0, decisions=0, feasibility_queries=0, obligations=0, discharged=0,
                          trivial=0, solver_s=0.0, concretizations=0, aborted=0)
        self.violations = []
        self.stop_on_violation = True
        self.witness_mode = False
        self.solver_timeout_ms = solver_timeout_ms
        self.deadline = None      # absolute time.time() after which the run is inconclusive
        self.active_known = set() # ids of listed known findings (from /verif/known_findings.json)
        self.known_hits = []      # (id, label, model)
        self.max_violations = 4
        self.nontrivial_labels = set()
        self.xc_max = 0           # cross-check (cvc5, exact encoding, own SMT-LIB emitter) at most this many discharged obligations
        self.xc_every = 5
        self.xc_seed = 0
        self.xc_seen = set()

    def _crosscheck(self, negated_goal, label):
        """sampled second opinion on a discharged obligation (z3/Gauss said: pc ∧ ¬goal unsat)"""
        if self.xc_max <= 0 or label in self.xc_seen:
            return
        import zlib
        if (zlib.crc32(label.encode("utf8", "replace")) + self.xc_seed) % self.xc_every:
            return
        if self.deadline is not None and time.time() > self.deadline - 10:
            return
        self.xc_seen.add(label)
        self.xc_max -= 1
        from sxl import crosscheck
        v, nn, nv, dt = crosscheck.check(list(self.pc) + [negated_goal])
        st = self.stats
        st["xc_queries"] = st.get("xc_queries", 0) + 1
        st["xc_s"] = st.get("xc_s", 0.0) + dt
        st["xc_max_nodes"] = max(st.get("xc_max_nodes", 0), nn)
        if v == "unsat":
            st["xc_agree"] = st.get("xc_agree", 0) + 1
        elif v == "sat":
            raise Inconclusive("solver disagreement: z3/Gauss discharged %r, cvc5 finds the exact encoding satisfiable" % label[:160])
        elif v.startswith("error"):
            raise Inconclusive("cross-check failed on %r: %s" % (label[:120], v))
        else:
            st["xc_undecided"] = st.get("xc_undecided", 0) + 1

    # ---- solver plumbing
    def _check(self, *extra, solver=None, allow_unknown=False, lemma_cap=400):
        """CEGAR over the affine-atom abstraction: returns (sat?, variable-model dict or None)"""
        t = time.time()
        sv = solver or self.solver
        sv.push()
        for e in extra:
            sv.add(e)
        try:
            for it in range(lemma_cap):
                r = sv.check()
                if r == z3.unknown:
                    if allow_unknown:
                        return None, None
                    raise Inconclusive("solver unknown: %s" % sv.reason_unknown())
                if r == z3.unsat:
                    return False, None
                m = sv.model()
                ok, res = linear_consistency(m)
                if ok:
                    return True, res
                self.stats["xor_lemmas"] = self.stats.get("xor_lemmas", 0) + 1
                sv.add(res)
                if solver is None:
                    self.lemmas.append(res)
            if allow_unknown:
                return None, None
            raise Inconclusive("CEGAR iteration cap")
        finally:
            sv.pop()
            self.stats["solver_s"] += time.time() - t

    def _check_exact(self, bits):
        """exact bit-level encoding (no affine-atom abstraction) of  pc AND bits ; used when the abstraction needs too many XOR lemmas
        (arithmetic-heavy cones: adders are a poor fit for the parity abstraction)"""
        t = time.time()
        self.stats["exact_fallbacks"] = self.stats.get("exact_fallbacks", 0) + 1
        try:
            # z3's run time on these cones varies a lot with its search heuristics: a time-out is retried twice with another random seed
            # (half the budget each) before the obligation is reported as undecided
            for attempt, (seed, budget) in enumerate(((0, self.solver_timeout_ms), (7, self.solver_timeout_ms // 2), (23, self.solver_timeout_ms // 2))):
                sv = z3.Solver()
                sv.set("timeout", budget)
                if seed:
                    sv.set("random_seed", seed)
                    self.stats["exact_retries"] = self.stats.get("exact_retries", 0) + 1
                for p in self.pc:
                    sv.add(p.z3())
                for b in bits:
                    sv.add(b.z3() if b.__class__ is Bit else z3.BoolVal(bool(b)))
                r = sv.check()
                if r == z3.unknown:
                    if self.deadline is not None and time.time() > self.deadline:
                        break
                    continue
                if r == z3.unsat:
                    return False, None
                return True, model_dict(sv.model())
            # last resort: cvc5 on the same exact encoding (own SMT-LIB emitter); its models go through the same replay as z3's
            if not (self.deadline is not None and time.time() > self.deadline):
                from sxl import crosscheck
                self.stats["cvc5_fallbacks"] = self.stats.get("cvc5_fallbacks", 0) + 1
                try:
                    v, m = crosscheck.solve_with_model(list(self.pc) + [b for b in bits if b.__class__ is Bit], self.solver_timeout_ms)
                except Exception:
                    v, m = "unknown", None
                if v == "unsat" and all(b.__class__ is Bit or b for b in bits):
                    self.stats["cvc5_fallback_decided"] = self.stats.get("cvc5_fallback_decided", 0) + 1
                    return False, None
                if v == "sat" and all(b.__class__ is Bit or b for b in bits):
                    self.stats["cvc5_fallback_decided"] = self.stats.get("cvc5_fallback_decided", 0) + 1
                    return True, m
            import os
            if os.environ.get("VF_DUMP_HARD"):
                from sxl import crosscheck
                smt, nn, nv = crosscheck.smtlib(list(self.pc) + list(bits))
                with open(os.path.join(os.environ["VF_DUMP_HARD"], "hard_%d_%d.smt2" % (os.getpid(), self.stats["obligations"])), "w") as f:
                    f.write(smt)
            raise Inconclusive("solver unknown (exact encoding): %s" % sv.reason_unknown())
        finally:
            self.stats["solver_s"] += time.time() - t

    def _check_hybrid(self, bit):
        """abstraction first under a short budget, exact encoding as fall-back"""
        self.solver.set("timeout", min(self.solver_timeout_ms, 10000))
        try:
            sat, m = self._check(bit.z3a() if bit.__class__ is Bit else z3.BoolVal(bool(bit)), allow_unknown=True, lemma_cap=120)
        finally:
            self.solver.set("timeout", self.solver_timeout_ms)
        if sat is None:
            sat, m = self._check_exact([bit])
        return sat, m

    def start_path(self):
        from sxl import runtime
        del runtime.GUARDS[:]
        self.pos = 0
        self.pc = []
        self.gauss = Gauss()
        self.nl_pc = 0
        self.solver.reset()
        self.solver.set("timeout", self.solver_timeout_ms)
        if self.deadline is not None and time.time() > self.deadline:
            raise Inconclusive("case time budget exceeded")
        for l in self.lemmas[-2000:]:
            self.solver.add(l)
        self.stats["paths"] += 1
        if self.stats["paths"] > self.max_paths:
            raise Inconclusive("path budget exceeded")

    def add_pc(self, b):
        if b.__class__ is Bit:
            self.pc.append(b)
            if getattr(self, "in_summary", 0):
                return
            self.solver.add(b.z3a())
            lv = affine_leaves(b)
            if lv is None:
                self.nl_pc += 1
            else:
                for m in lv:
                    self.gauss.add_true(m)

    def unconditionally_false(self, bit):
        if bit.__class__ is not Bit:
            return not bit
        if bit.is_affine:
            return False
        sv = getattr(self, "_free_solver", None)
        if sv is None:
            sv = self._free_solver = z3.Solver()
            sv.set("timeout", 1000)
        self.stats["free_queries"] = self.stats.get("free_queries", 0) + 1
        ok, _ = self._check(bit.z3a(), solver=sv, allow_unknown=True)
        return ok is False

    def feasible(self, bit):
        """is pc ∧ bit satisfiable?  Gauss–Jordan when the question is purely affine, z3 otherwise"""
        lv = affine_leaves(bit)
        if lv is not None:
            g = self.gauss.copy()
            ok = all(g.add_true(m) for m in lv)
            if not ok:
                self.stats["gauss"] = self.stats.get("gauss", 0) + 1
                return False
            if self.nl_pc == 0:
                self.stats["gauss"] = self.stats.get("gauss", 0) + 1
                return True
        else:
            nv = affine_leaves(bnot(bit))
            if nv is not None:
                # bit is a disjunction of negated affine leaves: infeasible iff every leaf of ¬bit is implied
                imp = [self.gauss.implied(m) for m in nv]
                if all(i is True for i in imp):
                    self.stats["gauss"] = self.stats.get("gauss", 0) + 1
                    return False
                if self.nl_pc == 0:
                    self.stats["gauss"] = self.stats.get("gauss", 0) + 1
                    return True
        # exact query with a short budget; on time-out over-approximate (treat as feasible): sound for verification,
        # obligations are still discharged against the full path condition and violations are replayed
        self.solver.set("timeout", 3000)
        ok, _ = self._check(bit.z3a(), allow_unknown=True)
        self.solver.set("timeout", self.solver_timeout_ms)
        if ok is None:
            self.stats["assumed_feasible"] = self.stats.get("assumed_feasible", 0) + 1
            return True
        return ok

    def decide(self, bit):
        if bit.__class__ is not Bit:
            return bool(bit)
        self.stats["decisions"] += 1
        if self.pos < len(self.trail):
            ch = self.trail[self.pos][0]
        else:
            if len(self.trail) >= self.max_decisions:
                raise Inconclusive("decision budget exceeded")
            if TRACE:
                import traceback
                fr = [f for f in traceback.extract_stack() if "/repo/" in f.filename or "/props/" in f.filename][-3:]
                print("DECIDE", [(f.filename.split("/")[-1], f.lineno, f.line) for f in fr], flush=True)
            if self.deadline is not None and time.time() > self.deadline:
                raise Inconclusive("case time budget exceeded")
            self.stats["feasibility_queries"] += 2
            if getattr(self, "in_summary", 0):
                t_ok = f_ok = True          # local merge: infeasible sub-paths only contribute false guards
            else:
                # pc is satisfiable by invariant: if one side is infeasible on its own, the other is feasible
                keys = {p.key for p in self.pc}
                nb = bnot(bit)
                if bit.key in keys:
                    t_ok, f_ok = True, False
                elif nb.__class__ is Bit and nb.key in keys:
                    t_ok, f_ok = False, True
                elif self.unconditionally_false(bnot(bit)):
                    t_ok, f_ok = True, False
                elif self.unconditionally_false(bit):
                    t_ok, f_ok = False, True
                else:
                    t_ok = self.feasible(bit)
                    f_ok = self.feasible(bnot(bit)) if t_ok else True
            if t_ok and f_ok:
                self.trail.append([True, False])
            elif t_ok:
                self.trail.append([True, True])
            elif f_ok:
                self.trail.append([False, True])
            else:
                raise PathAbort()
            ch = self.trail[self.pos][0]
        self.pos += 1
        self.add_pc(bit if ch else bnot(bit))
        return ch

    # ---- call-level merging: explore the callee's paths locally and return one merged result
    def summarize(self, f, args, kwargs, merge, copier):
        import copy
        outer_trail, outer_pos = self.trail, self.pos
        outer_pc, outer_gauss, outer_nl = list(self.pc), self.gauss.copy(), self.nl_pc
        results = []
        self.trail = []
        self.in_summary = getattr(self, "in_summary", 0) + 1
        try:
            while True:
                self.pos = 0
                self.solver.push()
                mark = len(self.pc)
                a2, k2 = copier(args, kwargs)
                try:
                    try:
                        r = ("ok", f(*a2, **k2))
                    except (PathAbort, Inconclusive, Violation):
                        raise
                    except Exception as e:
                        r = ("exc", e)
                    g = 1
                    for b in self.pc[mark:]:
                        g = band(g, b)
                    results.append((g, r, a2, k2))
                finally:
                    self.solver.pop()
                    self.pc = list(outer_pc)
                    self.gauss = outer_gauss.copy()
                    self.nl_pc = outer_nl
                self.stats["summary_paths"] = self.stats.get("summary_paths", 0) + 1
                if not self.next_path():
                    break
        finally:
            self.trail, self.pos = outer_trail, outer_pos
            self.in_summary -= 1
        return results

    def next_path(self):
        while self.trail and self.trail[-1][1]:
            self.trail.pop()
        if not self.trail:
            return False
        self.trail[-1][0] = not self.trail[-1][0]
        self.trail[-1][1] = True
        return True

    def concretize(self, sint, cap=4096):
        """fork over the feasible values of a symbolic int (value chosen by the solver, then == / != decision)"""
        self.stats["concretizations"] += 1
        n = 0
        while True:
            n += 1
            if n > cap:
                raise Inconclusive("concretization fan-out cap")
            v = self._model_value(sint)
            if self.decide(tobit(sint == v)):
                return v

    def _model_value(self, sint):
        ok, m = self._check()
        if not ok:
            raise PathAbort()
        from sxl.ints import SInt
        bits = sint.tc()
        val = 0
        for i, b in enumerate(bits):
            bv = _eval(m, b)
            val |= bv << i
        w = len(bits)
        if val >> (w - 1):
            val -= 1 << w
        return val

    # ---- harness API
    def assume(self, b):
        if b.__class__ is not Bit:
            if not b:
                raise PathAbort()
            return
        ok, _ = self._check(b.z3())
        if not ok:
            raise PathAbort()
        self.add_pc(b)

    def prove(self, b, label="", known=None):
        """obligation  pc => b.  `known`: {finding id: predicate} — for ids listed as known findings the obligation
        becomes  b ∨ predicate  and the twin  ¬b ∧ predicate  is queried to report the finding as still present."""
        self.stats["obligations"] += 1
        if b.__class__ is not Bit:
            b = tobit(b) if not isinstance(b, bool) else int(b)
        excuse = 0
        if known:
            from sxl.bits import bor
            for kid, pred in known.items():
                if kid not in self.active_known:
                    continue
                if pred.__class__ is not Bit:
                    pred = tobit(pred) if not isinstance(pred, bool) else int(pred)
                if not any(h[0] == kid for h in self.known_hits):
                    tw = band(bnot(b), pred)
                    if tw.__class__ is Bit or tw:
                        # the twin only serves to REPORT the listed finding as still present; it is not an obligation, so a
                        # time-out here is not held against the run
                        keep = self.solver_timeout_ms
                        self.solver_timeout_ms = min(keep, 8000)
                        try:
                            sat, m = self._check_hybrid(tw)
                        except Inconclusive:
                            sat, m = None, None
                            self.stats["twin_timeouts"] = self.stats.get("twin_timeouts", 0) + 1
                        finally:
                            self.solver_timeout_ms = keep
                        if sat:
                            self.known_hits.append((kid, label, m))
                excuse = bor(excuse, pred)
            if excuse.__class__ is Bit or excuse:
                from sxl.bits import bor as _bor
                b = _bor(b, excuse)
        if b.__class__ is not Bit:
            # closed by normalisation; still counted, still sent
            if b:
                sat, m = self._check(z3.BoolVal(False))
            else:
                # concretely false on this path: the path condition's model is the counterexample (abstraction first, exact encoding as fall-back)
                try:
                    sat, m = self._check_hybrid(1)
                except Inconclusive as e:
                    raise Inconclusive("%s [obligation: %s]" % (e, label[:160]))
            self.stats["trivial"] += 1
        else:
            self.nontrivial_labels.add(label)
            lv = affine_leaves(bnot(b))
            done = False
            if lv is not None:
                # negated goal is a conjunction of parities: Gauss-Jordan against the affine part of the path condition.
                # inconsistent => unsat whatever the non-affine rest says; consistent and no non-affine rest => sat, exactly.
                g = self.gauss.copy()
                self.stats["gauss_obligations"] = self.stats.get("gauss_obligations", 0) + 1
                if not all(g.add_true(x) for x in lv):
                    sat, m, done = False, None, True
                elif self.nl_pc == 0:
                    sat, m, done = True, g.model(), True
            if not done:
                try:
                    sat, m = self._check_hybrid(bnot(b))
                except Inconclusive as e:
                    raise Inconclusive("%s [obligation: %s]" % (e, label[:160]))
        if sat:
            mod = m
            self.violations.append((label, mod))
            if self.stop_on_violation or len(self.violations) >= self.max_violations:
                raise Violation(label, mod)
        else:
            self.stats["discharged"] += 1
            if b.__class__ is Bit and self.xc_max > 0:
                self._crosscheck(bnot(b), label)

    def witness(self):
        ok, m = self._check_hybrid(1)
        return m if ok else None


def _eval(m, b):
    """m: dict var name -> 0/1 (complete over CTX variables)"""
    if b.__class__ is not Bit:
        return int(b)
    v = b.mask & 1
    x = b.mask >> 1
    i = 0
    while x:
        if x & 1:
            v ^= m.get(CTX.var_names[i], 0)
        x >>= 1
        i += 1
    for a in b.ands:
        p, q = CTX.and_nodes[a]
        v ^= _eval(m, p) & _eval(m, q)
    return v


def linear_consistency(m):
    """z3 model over atoms -> (True, {var: 0/1}) if the atom values are realisable by the base variables,
    else (False, lemma) where lemma is the violated linear dependency among atoms"""
    rows = {}      # pivot -> (mask incl. const bit, set of atom indices combined)
    for idx, (vm, e) in enumerate(CTX.atom_list):
        val = m.eval(e, model_completion=False)
        if z3.is_true(val):
            v = 1
        elif z3.is_false(val):
            v = 0
        else:
            continue                      # don't-care atom
        cur = vm | v                      # affine form  vm ^ v  must be 0   (vm == v)
        comb = {idx}
        while cur > 1:
            p = cur.bit_length() - 1
            r = rows.get(p)
            if r is None:
                break
            cur ^= r[0]
            comb ^= r[1]
        if cur == 0:
            continue
        if cur == 1:
            # dependency: XOR of atoms in comb has a forced constant value (masks cancel)
            es = [CTX.atom_list[i][1] for i in sorted(comb)]
            x = es[0]
            for t in es[1:]:
                x = z3.Xor(x, t)
            # masks XOR to 0, hence atom values must XOR to 0
            return False, z3.Not(x)
        p = cur.bit_length() - 1
        rows[p] = (cur, comb)
    # back-substitute: free variables 0
    model = {}
    for p in sorted(rows):                 # ascending pivots: each row's other vars are lower positions
        mask = rows[p][0]
        v = mask & 1
        x = (mask >> 1) & ((1 << (p - 1)) - 1)
        i = 0
        while x:
            if x & 1:
                v ^= model.get(i, 0)
            x >>= 1
            i += 1
        model[p - 1] = v
    return True, {CTX.var_names[i]: model.get(i, 0) for i in range(len(CTX.var_names))}


def model_dict(m):
    out = {}
    for i, name in enumerate(CTX.var_names):
        v = m.eval(CTX.var_z3[i], model_completion=True)
        out[name] = 1 if z3.is_true(v) else 0
    return out


CURRENT = None
TRACE = False


def decide(bit):
    if CURRENT is None:
        raise RuntimeError("symbolic decision outside an exploration: %r" % (bit,))
    return CURRENT.decide(bit)


def concretize(s):
    if CURRENT is None:
        raise RuntimeError("symbolic concretization outside an exploration")
    return CURRENT.concretize(s)


def assume(b):
    CURRENT.assume(b)


def prove(b, label=""):
    CURRENT.prove(b, label)


def run(harness, **kw):
    """explore all paths of harness(); returns (stats, violations)"""
    global CURRENT
    ex = Explorer(**kw)
    CURRENT = ex
    t0 = time.time()
    try:
        while True:
            ex.start_path()
            try:
                harness()
            except PathAbort:
                ex.stats["aborted"] += 1
            except Violation:
                break
            if not ex.next_path():
                break
    finally:
        CURRENT = None
    ex.stats["wall_s"] = round(time.time() - t0, 3)
    return ex.stats, ex.violations
