"""sxl.sfloat — SDyad: a float whose value is an exact dyadic rational  n / 2**e  (n symbolic SInt | int, e concrete).
Only used where every operation the library performs on the value is exact in binary64 (<= 53 significant bits, checked by the
harness as a precondition on the operand widths); anything else raises Inconclusive rather than guessing."""
from sxl.bits import Bit, bnot
from sxl.ints import SInt


def _inc(msg):
    from sxl.explore import Inconclusive
    import os
    if os.environ.get("VF_TRACE_INC"):
        import traceback
        traceback.print_stack()
    raise Inconclusive("SDyad: " + msg)


def _mux(c, a, b):
    from sxl import runtime
    if c.__class__ is not Bit:
        return a if c else b
    return runtime.merge(c, a, b)


class SDyad:
    __slots__ = ("n", "e")

    def __init__(self, n, e):
        if n.__class__ is Bit:
            n = SInt.of(n)
        if n.__class__ is SInt:
            lo, hi = n.interval()
            if max(abs(lo), abs(hi)) >= (1 << 53):
                # the interval bound is syntactic; ask the solver whether such a magnitude is feasible on this path (a decision: the
                # feasible side is inconclusive, the other side continues with the exactness condition in the path condition)
                from sxl import runtime
                from sxl.bits import bor
                big = bor(runtime.as_cond(n >= (1 << 53)), runtime.as_cond(n <= -(1 << 53)))
                if runtime.truth(big):
                    _inc("value may need more than 53 significant bits (binary64 arithmetic would round)")
        self.n, self.e = n, e

    # -------- helpers
    def _neg_cond(self):
        return self.n < 0

    def trunc(self):
        """int(x): truncation toward zero"""
        n, e = self.n, self.e
        if e == 0:
            return n
        pos = n >> e
        neg = -((-n) >> e)
        return _mux(n < 0, neg, pos)

    def _align(self, o):
        if isinstance(o, SDyad):
            e = max(self.e, o.e)
            return self.n * (1 << (e - self.e)), o.n * (1 << (e - o.e)), e
        if isinstance(o, (int, SInt, Bit)) and not isinstance(o, bool):
            return self.n, o * (1 << self.e), self.e
        if isinstance(o, float):
            if o == int(o):
                return self.n, int(o) * (1 << self.e), self.e
            m, ex = o.as_integer_ratio()
            k = ex.bit_length() - 1
            if ex != 1 << k:
                _inc("non-dyadic float operand")
            e = max(self.e, k)
            return self.n * (1 << (e - self.e)), m * (1 << (e - k)), e
        return None

    # -------- arithmetic
    def __add__(self, o):
        r = self._align(o)
        if r is None:
            return NotImplemented
        return SDyad(r[0] + r[1], r[2])
    __radd__ = __add__

    def __sub__(self, o):
        r = self._align(o)
        if r is None:
            return NotImplemented
        return SDyad(r[0] - r[1], r[2])

    @staticmethod
    def _raw(n, e):
        """a value whose magnitude is that of an existing SDyad (negation, abs, copysign are exact): no new 53-bit check — the interval
        bound of a negated / merged numerator is one bit coarser than the operand's"""
        r = SDyad.__new__(SDyad)
        r.n, r.e = n, e
        return r

    def __neg__(self):
        return SDyad._raw(-self.n, self.e)

    def __abs__(self):
        return SDyad._raw(abs(self.n), self.e)

    def __mul__(self, o):
        if isinstance(o, float) and o != int(o):
            m, d = o.as_integer_ratio()
            return SDyad(self.n * m, self.e + d.bit_length() - 1)
        if isinstance(o, bool) or not isinstance(o, int):
            if isinstance(o, float) and o == int(o):
                o = int(o)
            else:
                _inc("multiplication by a non-integer")
        if o > 0 and o & (o - 1) == 0:
            k = o.bit_length() - 1
            if k <= self.e:
                return SDyad(self.n, self.e - k)
            return SDyad(self.n * (1 << (k - self.e)), 0)
        return SDyad(self.n * o, self.e)
    __rmul__ = __mul__

    def __mod__(self, d):
        if isinstance(d, (SInt, Bit)):
            d = int(d)                       # forks over the feasible divisors
        from sxl import runtime
        if d.__class__ is runtime.Choice:
            d = d.force()
        mask = (1 << self.e) - 1
        if d == 1:
            return SDyad(self.n & mask, self.e) if self.e else SDyad(0, 0)
        if d == -1:
            return SDyad(-((-self.n) & mask), self.e) if self.e else SDyad(0, 0)
        _inc("modulo by %r" % (d,))

    def __truediv__(self, o):
        if isinstance(o, int) and o > 0 and o & (o - 1) == 0:
            return SDyad(self.n, self.e + o.bit_length() - 1)
        if isinstance(o, float) and o > 0:
            # exact only when the numerator is a multiple of the divisor's odd part; IEEE division is correctly rounded,
            # so an exactly representable quotient is what binary64 returns
            m, d = o.as_integer_ratio()
            k = d.bit_length() - 1
            n = self.n
            if isinstance(n, int):
                if n % m:
                    _inc("inexact float division")
                q = n // m
            else:
                if n.const % m or any(c % m for c, a in n.terms.values()):
                    _inc("float division whose exactness is not syntactically evident")
                q = SInt({kk: (c // m, a) for kk, (c, a) in n.terms.items()}, n.const // m).norm()
            if k >= self.e:
                return SDyad(q * (1 << (k - self.e)), 0)
            return SDyad(q, self.e - k)
        _inc("division by %r" % (o,))

    # -------- comparisons
    def _cmp(self, o, op):
        r = self._align(o)
        if r is None:
            return NotImplemented
        a, b, _ = r
        return getattr(a if isinstance(a, SInt) else SInt.of(a), op)(b)

    def __eq__(self, o): return self._cmp(o, "__eq__")
    def __ne__(self, o): return self._cmp(o, "__ne__")
    def __lt__(self, o): return self._cmp(o, "__lt__")
    def __le__(self, o): return self._cmp(o, "__le__")
    def __gt__(self, o): return self._cmp(o, "__gt__")
    def __ge__(self, o): return self._cmp(o, "__ge__")
    def __hash__(self):
        return 0x53594D

    def __float__(self):
        _inc("concretisation of a symbolic float")

    def __repr__(self):
        return "<SDyad /2^%d>" % self.e

    def __format__(self, spec):
        return "<sym-float>"

    def __deepcopy__(self, memo):
        return self


def copysign(x, s):
    import math
    if not isinstance(x, SDyad) and not isinstance(s, (SDyad, SInt, Bit)):
        return math.copysign(x, s)
    if not isinstance(x, SDyad):
        if isinstance(x, float):
            if x != x or x in (float("inf"), float("-inf")):
                _inc("copysign of a non-finite float")
            m, d = x.as_integer_ratio()
            x = SDyad(m, d.bit_length() - 1)
        elif isinstance(x, (int, SInt, Bit)):
            x = SDyad(x, 0)
        else:
            _inc("copysign of %r" % type(x).__name__)
    sneg = (s.n < 0) if isinstance(s, SDyad) else (s < 0)
    a = abs(x)
    # copysign never changes the magnitude, so it is exact whenever its operand is: no new 53-bit check (the interval of the merged
    # numerator is one bit coarser than that of |x|)
    return SDyad._raw(_mux(sneg, -a.n, a.n), a.e)
