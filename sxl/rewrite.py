"""sxl.rewrite — AST rewriter + import hook: okdmr.dmrlib.* is compiled from the working tree's
current source with the constructs Python does not let a proxy overload routed through `_sx_`."""
import ast
import sys
import importlib.abc
import importlib.machinery

RT = "_sx_"
PREFIXES = ("okdmr.dmrlib", "props", "okdmr.kaitai")
LOADED = {}          # module name -> path (what was actually encoded)


def _rt(fn, *args):
    return ast.Call(func=ast.Attribute(value=ast.Name(id=RT, ctx=ast.Load()), attr=fn, ctx=ast.Load()),
                    args=list(args), keywords=[])


def _lam(e):
    return ast.Lambda(args=ast.arguments(posonlyargs=[], args=[], kwonlyargs=[], kw_defaults=[], defaults=[]), body=e)


def _name(n, store=False):
    return ast.Name(id=n, ctx=ast.Store() if store else ast.Load())


def _const(v):
    return ast.Constant(value=v)


_SIMPLE = (ast.Assign, ast.AugAssign, ast.AnnAssign, ast.Pass)
_CMP = {ast.Eq: "==", ast.NotEq: "!=", ast.Lt: "<", ast.LtE: "<=", ast.Gt: ">", ast.GtE: ">=",
        ast.In: "in", ast.NotIn: "not in", ast.Is: "is", ast.IsNot: "is not"}


_MUTATORS = {"append", "extend", "pop", "add", "update", "insert", "remove", "clear", "invert", "reverse", "setall", "fill", "bytereverse", "sort",
             "write", "send", "sendto", "put", "popitem", "setdefault", "discard", "frombytes", "close", "set", "acquire", "release", "attr",
             "delete_attr", "patch", "save"}


def _simple_body(stmts):
    """only assignments whose right-hand sides have no visible side effect may run speculatively under a symbolic condition"""
    for s in stmts:
        if isinstance(s, ast.If):
            if not (_simple_body(s.body) and _simple_body(s.orelse)):
                return False
        elif not isinstance(s, _SIMPLE):
            return False
        else:
            for n in ast.walk(s):
                if isinstance(n, (ast.Yield, ast.YieldFrom, ast.Await, ast.NamedExpr, ast.Starred)):
                    return False
                if isinstance(n, ast.Call) and isinstance(n.func, ast.Attribute):
                    if n.func.attr in _MUTATORS:
                        return False
                    # already rewritten call: _sx_.call(obj.method, ...)
                    if n.func.attr == "call" and n.args and isinstance(n.args[0], ast.Attribute) and n.args[0].attr in _MUTATORS:
                        return False
    return True


def _aug_targets(stmts, out):
    for s in stmts:
        if isinstance(s, ast.If):
            _aug_targets(s.body, out)
            _aug_targets(s.orelse, out)
        elif isinstance(s, ast.AugAssign):
            out.add(ast.unparse(s.target))
    return out


def _targets(stmts, out):
    for s in stmts:
        if isinstance(s, ast.If):
            _targets(s.body, out)
            _targets(s.orelse, out)
        elif isinstance(s, ast.Assign):
            out.extend(s.targets)
        elif isinstance(s, ast.AugAssign):
            out.append(s.target)
        elif isinstance(s, ast.AnnAssign) and s.value is not None:
            out.append(s.target)
    return out


def _target_ok(t):
    if isinstance(t, ast.Name):
        return True
    if isinstance(t, ast.Attribute):
        return isinstance(t.value, ast.Name)
    if isinstance(t, ast.Subscript):
        return isinstance(t.value, ast.Name) and isinstance(t.slice, (ast.Name, ast.Constant))
    return False


class Rewriter(ast.NodeTransformer):
    def __init__(self):
        self.n = 0
        self.in_thunk = 0
        self.func_self = []

    def tmp(self):
        self.n += 1
        return "_sx_t%d" % self.n

    # ---- do not touch annotations
    def visit_arg(self, node):
        return node

    def visit_AnnAssign(self, node):
        if node.value is not None:
            node.value = self.visit(node.value)
        node.target = self.visit(node.target)
        return node

    def _visit_body(self, body):
        out = []
        for s in body:
            r = self.visit(s)
            if isinstance(r, list):
                out.extend(r)
            elif r is not None:
                out.append(r)
        return out

    def visit_FunctionDef(self, node):
        first = node.args.args[0].arg if node.args.args else None
        self.func_self.append(first)
        node.body = self._visit_body(node.body)
        self.func_self.pop()
        node.args.defaults = [self.visit(d) for d in node.args.defaults]
        node.args.kw_defaults = [self.visit(d) if d is not None else None for d in node.args.kw_defaults]
        node.decorator_list = [self.visit(d) for d in node.decorator_list]
        return node

    visit_AsyncFunctionDef = visit_FunctionDef

    def visit_Lambda(self, node):
        self.func_self.append(None)
        node.body = self.visit(node.body)
        self.func_self.pop()
        return node

    # ---- expressions
    def _thunk(self, e):
        return _lam(e)

    def visit_IfExp(self, node):
        self.generic_visit(node)
        return ast.copy_location(_rt("ite", node.test, self._thunk(node.body), self._thunk(node.orelse)), node)

    def visit_UnaryOp(self, node):
        self.generic_visit(node)
        if isinstance(node.op, ast.Not):
            return ast.copy_location(_rt("not_", node.operand), node)
        return node

    def visit_BoolOp(self, node):
        self.generic_visit(node)
        fn = "and_" if isinstance(node.op, ast.And) else "or_"
        return ast.copy_location(_rt(fn, *[self._thunk(v) for v in node.values]), node)

    def visit_Compare(self, node):
        self.generic_visit(node)
        special = any(isinstance(o, (ast.In, ast.NotIn, ast.Is, ast.IsNot)) for o in node.ops)
        if len(node.ops) == 1 and not special:
            return node
        ops = ast.Tuple(elts=[_const(_CMP[type(o)]) for o in node.ops], ctx=ast.Load())
        return ast.copy_location(_rt("compare", node.left, ops, *[self._thunk(c) for c in node.comparators]), node)

    def visit_Subscript(self, node):
        self.generic_visit(node)
        if isinstance(node.ctx, ast.Load):
            sl = node.slice
            if isinstance(sl, ast.Slice):
                none = _const(None)
                sl = ast.Call(func=_name("slice"), args=[sl.lower or none, sl.upper or none, sl.step or none], keywords=[])
            elif isinstance(sl, ast.Tuple) and any(isinstance(e, ast.Slice) for e in sl.elts):
                return node
            return ast.copy_location(_rt("getitem", node.value, sl), node)
        return node

    def visit_Call(self, node):
        # super() without arguments cannot live in a thunk; make it explicit
        if isinstance(node.func, ast.Name) and node.func.id == "super" and not node.args and self.func_self and self.func_self[-1]:
            node.args = [_name("__class__"), _name(self.func_self[-1])]
            return node
        self.generic_visit(node)
        if any(isinstance(a, ast.Starred) for a in node.args) or any(k.arg is None for k in node.keywords):
            return node
        if isinstance(node.func, ast.Attribute) and isinstance(node.func.value, ast.Name) and node.func.value.id == RT:
            return node
        if isinstance(node.func, ast.Name) and node.func.id in ("super", "locals", "globals", "vars", "slice"):
            return node
        new = ast.Call(func=ast.Attribute(value=_name(RT), attr="call", ctx=ast.Load()),
                       args=[node.func] + node.args, keywords=node.keywords)
        return ast.copy_location(new, node)

    # ---- statements
    def visit_Assert(self, node):
        self.generic_visit(node)
        node.test = _rt("truth", node.test)
        return node

    @staticmethod
    def _fold_continue(body):
        """`if c: continue` followed by the rest of a loop body  ==  `if not c: <rest>` (same semantics); in that shape a rest made of
        plain assignments can run predicated (merged) instead of forking once per iteration"""
        for i, s in enumerate(body):
            if (isinstance(s, ast.If) and not s.orelse and len(s.body) == 1 and isinstance(s.body[0], ast.Continue) and i + 1 < len(body)):
                rest = Rewriter._fold_continue(body[i + 1:])
                new = ast.If(test=ast.UnaryOp(op=ast.Not(), operand=s.test), body=rest, orelse=[])
                return body[:i] + [ast.copy_location(new, s)]
        return body

    def visit_For(self, node):
        node.body = self._fold_continue(node.body)
        self.generic_visit(node)
        return node

    def visit_While(self, node):
        node.body = self._fold_continue(node.body)
        self.generic_visit(node)
        node.test = _rt("truth", node.test)
        return node

    def visit_comprehension(self, node):
        self.generic_visit(node)
        node.ifs = [_rt("truth", i) for i in node.ifs]
        return node

    def visit_ExceptHandler(self, node):
        self.generic_visit(node)
        return node

    def visit_Try(self, node):
        self.generic_visit(node)
        # engine control exceptions must pass through bare / BaseException handlers
        guard = ast.ExceptHandler(type=ast.Attribute(value=_name(RT), attr="Control", ctx=ast.Load()), name=None,
                                  body=[ast.Raise(exc=None, cause=None)])
        if node.handlers:
            node.handlers = [guard] + node.handlers
        return node

    def visit_If(self, node):
        self.generic_visit(node)
        simple = _simple_body(node.body) and _simple_body(node.orelse)
        tgts = (_targets(node.body, []) + _targets(node.orelse, [])) if simple else []
        if not (simple and tgts and all(_target_ok(t) for t in tgts)):
            node.test = _rt("truth", node.test)
            return node
        uniq = {}
        for t in tgts:
            uniq.setdefault(ast.unparse(t), t)
        srcs = list(uniq.keys())

        def load(src):
            return ast.parse(src, mode="eval").body

        def store(src):
            t = ast.parse(src, mode="eval").body
            t.ctx = ast.Store()
            return t

        aug = _aug_targets(node.body, set()) | _aug_targets(node.orelse, set())

        def snap(name, copying=False):
            # targets of augmented assignments may be mutated IN PLACE (list += , bitarray +=): the pre-state snapshot must be a copy
            def how(s):
                if copying and s in aug:
                    return "peek_copy"
                return "peek_item" if isinstance(uniq[s], ast.Subscript) else "peek"
            return ast.Assign(targets=[_name(name, True)],
                              value=ast.Tuple(elts=[_rt(how(s), _lam(load(s))) for s in srcs], ctx=ast.Load()))

        def item(name, i):
            return ast.Subscript(value=_name(name), slice=_const(i), ctx=ast.Load())

        def restore(name):
            return [ast.If(test=_rt("bound", item(name, i)),
                           body=[ast.Assign(targets=[store(s)], value=_rt("unsnap", item(name, i)))], orelse=[])
                    for i, s in enumerate(srcs)]

        def snap_after(name):
            def one(i, s):
                if s in aug:
                    return _rt("peek_after", _lam(load(s)), item(old, i))
                return _rt("peek_item" if isinstance(uniq[s], ast.Subscript) else "peek", _lam(load(s)))
            return ast.Assign(targets=[_name(name, True)], value=ast.Tuple(elts=[one(i, s) for i, s in enumerate(srcs)], ctx=ast.Load()))

        c, old, a, b, tok = self.tmp(), self.tmp(), self.tmp(), self.tmp(), self.tmp()
        site = "%s:%d" % ("?", node.lineno)
        body_then = node.body or [ast.Pass()]
        body_else = node.orelse or [ast.Pass()]
        import copy as _copy
        pred_ok = [ast.Assign(targets=[_name(tok, True)], value=_rt("serial")), snap(old, True),
                   ast.Expr(_rt("enter", _name(c), _const(True)))] + _copy.deepcopy(body_then) + [ast.Expr(_rt("leave")), snap_after(a)] + restore(old) + \
                  [ast.Expr(_rt("enter", _name(c), _const(False)))] + _copy.deepcopy(body_else) + [ast.Expr(_rt("leave")), snap_after(b)] + \
                  [ast.Assign(targets=[store(s)], value=_rt("merge_target", _name(c), item(a, i), item(b, i), item(old, i), _name(tok),
                                                            _const(isinstance(uniq[s], ast.Subscript)), _const(s in aug))) for i, s in enumerate(srcs)]
        # try predicated; on MergeFail restore and fork
        pred = [ast.Try(body=pred_ok,
                        handlers=[ast.ExceptHandler(type=ast.Attribute(value=_name(RT), attr="SpecFail", ctx=ast.Load()), name=None,
                                                    body=[ast.Expr(_rt("unwind"))] + restore(old) + [
                                                        ast.If(test=_rt("fork", _name(c)), body=_copy.deepcopy(body_then), orelse=_copy.deepcopy(body_else))])],
                        orelse=[], finalbody=[])]
        new = [
            ast.Assign(targets=[_name(c, True)], value=_rt("cond", node.test)),
            ast.If(test=ast.Compare(left=_name(c), ops=[ast.Is()], comparators=[_const(True)]),
                   body=body_then,
                   orelse=[ast.If(test=ast.Compare(left=_name(c), ops=[ast.Is()], comparators=[_const(False)]),
                                  body=body_else, orelse=pred)]),
        ]
        return [ast.copy_location(n, node) for n in new]


def transform(src, filename):
    tree = ast.parse(src, filename)
    tree = Rewriter().visit(tree)
    ast.fix_missing_locations(tree)
    return tree


class Loader(importlib.abc.SourceLoader):
    def __init__(self, fullname, path):
        self.fullname, self.path = fullname, path

    def get_filename(self, fullname):
        return self.path

    def get_data(self, path):
        with open(path, "rb") as f:
            return f.read()

    def get_code(self, fullname):
        src = self.get_data(self.path).decode("utf8")
        tree = transform(src, self.path)
        LOADED[fullname] = self.path
        return compile(tree, self.path, "exec", dont_inherit=True)

    def exec_module(self, module):
        from sxl import runtime
        module.__dict__[RT] = runtime
        runtime.patch_module_globals(module)
        super().exec_module(module)
        runtime.post_import(module)


class Finder(importlib.abc.MetaPathFinder):
    def find_spec(self, fullname, path, target=None):
        if not any(fullname == p or fullname.startswith(p + ".") for p in PREFIXES):
            return None
        if ".tests" in fullname:
            return None
        spec = importlib.machinery.PathFinder.find_spec(fullname, path)
        if spec is None or not spec.origin or not spec.origin.endswith(".py"):
            return spec
        spec.loader = Loader(fullname, spec.origin)
        return spec


def install():
    if not any(isinstance(f, Finder) for f in sys.meta_path):
        sys.meta_path.insert(0, Finder())
