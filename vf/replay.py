"""vf.replay — batch concrete re-execution on the real code (plain interpreter: real bitarray/numpy, no hook)."""
import json
import sys


def main():
    inp, outp = sys.argv[1], sys.argv[2]
    from vf.worker import boot_plain, replay_one
    boot_plain()
    assert "sxl.rewrite" not in sys.modules
    import bitarray
    assert not bitarray.__version__.endswith("-sxl"), "replay must use the real bitarray"
    with open(inp) as f:
        d = json.load(f)
    outs = []
    for j in d["jobs"]:
        try:
            outs.append(replay_one(d["prop"], j["case"], j["model"]))
        except BaseException as e:
            outs.append(dict(outcome="error", error="%s: %s" % (type(e).__name__, e), covers=[], label=None))
    with open(outp, "w") as f:
        json.dump(outs, f)


if __name__ == "__main__":
    main()
