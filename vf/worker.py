"""vf.worker — runs one case symbolically inside a worker process (import hook + stand-ins active)."""
import os
import sys
import time
import traceback
import importlib

VERIF = os.path.dirname(os.path.dirname(os.path.abspath(__file__)))
REPO = os.environ.get("OKDMR_REPO", "/repo")


def boot_symbolic():
    """activate the stand-ins and the import hook in this process (guard variable OKDMR_VERIF=1)"""
    os.environ["OKDMR_VERIF"] = "1"
    shims = os.path.join(VERIF, "shims")
    if shims not in sys.path:
        sys.path.insert(0, shims)
    if VERIF not in sys.path:
        sys.path.insert(1, VERIF)
    if REPO not in sys.path:
        sys.path.insert(2, REPO)
    sys.dont_write_bytecode = True
    import logging
    logging.disable(logging.CRITICAL)
    from sxl import rewrite
    rewrite.install()
    from vf import stubs
    stubs.install()


def boot_plain():
    """replay mode: real bitarray / numpy / okdmr, no hook"""
    if VERIF not in sys.path:
        sys.path.insert(0, VERIF)
    if REPO not in sys.path:
        sys.path.insert(1, REPO)
    sys.dont_write_bytecode = True
    import logging
    logging.disable(logging.CRITICAL)


def _model_pretty(model):
    """group variable assignments into ints / byte strings for human readers"""
    import re
    ints = {}
    for k, v in model.items():
        m = re.match(r"^(.*)\.(\d+)$", k)
        if m:
            ints[m.group(1)] = ints.get(m.group(1), 0) | (int(v) << int(m.group(2)))
        else:
            ints[k] = int(v)
    out = {}
    arrays = {}
    for k, v in ints.items():
        m = re.match(r"^(.*)\[(\d+)\]$", k)
        if m:
            arrays.setdefault(m.group(1), {})[int(m.group(2))] = v
        else:
            out[k] = v
    for k, d in arrays.items():
        n = max(d) + 1
        vals = [d.get(i, 0) for i in range(n)]
        if all(x in (0, 1) for x in vals) and not any((k + "[%d].0" % i) in model for i in range(min(n, 2))):
            out[k] = "bits:" + "".join(str(x) for x in vals)
        else:
            out[k] = "hex:" + bytes(x & 0xFF for x in vals).hex()
    return out


def run_case(prop_id, case_json, seed, active_known):
    """-> result dict (JSON-serialisable)"""
    from vf.api import HX, Case
    from sxl import explore, runtime
    from sxl.explore import Explorer, PathAbort, Violation, Inconclusive
    case = Case.from_json(case_json)
    t0 = time.time()
    res = dict(case=case.name, fn=case.fn, params=case.params, bounds=case.bounds, status="ok", paths=0, obligations=0,
               discharged=0, trivial=0, violations=[], known_hits=[], covers={}, missing_covers=[], inconclusive=None,
               stats={}, entered=[], wall_s=0.0, nontrivial=0)
    try:
        mod = importlib.import_module("props.%s" % prop_id)
        fn = getattr(mod, case.fn)
        runtime.reset(seed)
        o = case.opts
        runtime.MERGE_CALLS.clear(); runtime.MERGE_CALLS.update(o.get("merge_calls", ()))
        runtime.LAZY_CALLS.clear(); runtime.LAZY_CALLS.update(o.get("lazy_calls", ()))
        runtime.TABULATE_CALLS.clear(); runtime.TABULATE_CALLS.update(o.get("tabulate_calls", ()))
        runtime.SWEEP = bool(o.get("sweep", False))
        ex = Explorer(max_paths=o.get("max_paths", 20000), solver_timeout_ms=o.get("solver_timeout_ms", 60000),
                      max_decisions=o.get("max_decisions", 5000))
        ex.stop_on_violation = False
        ex.max_violations = o.get("max_violations", 4)
        ex.active_known = set(active_known)
        ex.deadline = t0 + case.budget_s
        ex.xc_max = o.get("xc_max", int(os.environ.get("VF_XC_MAX", "3")))
        ex.xc_seed = seed
        explore.CURRENT = ex
        hx = HX("sym", explorer=ex, seed=seed)
        from vf import state
        guard = state.process_guard()
        try:
            while True:
                guard.restore()
                ex.start_path()
                hx.path_covers = []
                try:
                    fn(hx, **case.params)
                    # vacuity twin: the end of this path must be reachable (pc satisfiable) for each class it marks
                    for lab in hx.path_covers + ["end"]:
                        if lab not in hx.covers:
                            m = ex.witness()
                            if m is not None:
                                hx.covers[lab] = m
                except PathAbort:
                    ex.stats["aborted"] += 1
                except Violation:
                    break
                if not ex.next_path():
                    break
        except Inconclusive as e:
            res["status"] = "inconclusive"
            res["inconclusive"] = str(e)
        except Exception as e:
            # an exception escaping the harness itself: the case is inconclusive, but violations found (and replayable) before it are kept
            res["status"] = "error"
            res["inconclusive"] = "engine/harness error: %s: %s" % (type(e).__name__, e)
            res["traceback"] = traceback.format_exc()[-3000:]
        finally:
            explore.CURRENT = None
        st = ex.stats
        res.update(paths=st["paths"], obligations=st["obligations"], discharged=st["discharged"], trivial=st["trivial"],
                   nontrivial=len(ex.nontrivial_labels))
        res["stats"] = {k: (round(v, 3) if isinstance(v, float) else v) for k, v in st.items()}
        res["stats"].update({("rt_" + k): v for k, v in runtime.STATS.items() if v})
        res["stats"]["vars"] = len(runtime.CTX.var_names)
        res["stats"]["and_nodes"] = runtime.CTX.stats["and_nodes"]
        seen = set()
        for label, m in ex.violations:
            if label in seen:
                continue
            seen.add(label)
            res["violations"].append(dict(label=label, model={k: v for k, v in m.items() if v}, pretty=_model_pretty(m)))
        for kid, label, m in ex.known_hits:
            res["known_hits"].append(dict(id=kid, label=label, model={k: v for k, v in m.items() if v}, pretty=_model_pretty(m)))
        for lab, m in hx.covers.items():
            res["covers"][lab] = dict(model={k: v for k, v in m.items() if v}, pretty=_model_pretty(m))
        want = case.covers or ["end"]
        res["missing_covers"] = [c for c in want if c not in hx.covers]
        if res["violations"] and res["status"] == "ok":
            res["status"] = "violated"
        res["entered"] = sorted("%s.%s" % e for e in runtime.ENTERED)
    except (KeyboardInterrupt, SystemExit):
        raise
    except BaseException as e:
        res["status"] = "error"
        res["inconclusive"] = "engine/harness error: %s: %s" % (type(e).__name__, e)
        res["traceback"] = traceback.format_exc()[-3000:]
    res["wall_s"] = round(time.time() - t0, 3)
    return res


_REPLAY_GUARD = None


def replay_one(prop_id, case_json, model, expect_label=None):
    """concrete re-execution on the real code.  -> dict(outcome=violated|passed|assume_failed|error, label, covers)"""
    from vf.api import HX, Case, ReplayViolation, ReplayAssumeFailed
    case = Case.from_json(case_json)
    mod = importlib.import_module("props.%s" % prop_id)
    fn = getattr(mod, case.fn)
    hx = HX("replay", model=model)
    out = dict(outcome="passed", label=None, covers=[], error=None, log=[])
    from vf import state
    state.process_guard().restore()
    try:
        fn(hx, **case.params)
    except ReplayViolation as e:
        out["outcome"] = "violated"
        out["label"] = e.label
    except ReplayAssumeFailed:
        out["outcome"] = "assume_failed"
    except Exception as e:
        out["outcome"] = "error"
        out["error"] = "%s: %s" % (type(e).__name__, e)
        out["traceback"] = traceback.format_exc()[-2000:]
    out["covers"] = sorted(hx.covers)
    out["log"] = hx.replay_log[-6:]
    return out
