"""vf.main — `./check <id> --tier quick|thorough [--replay path]`"""
import argparse
import hashlib
import json
import os
import subprocess
import sys
import tempfile
import time

VERIF = os.path.dirname(os.path.dirname(os.path.abspath(__file__)))
REPO = os.environ.get("OKDMR_REPO", "/repo")
PY = sys.executable


def load_known(prop_id):
    p = os.path.join(VERIF, "known_findings.json")
    if not os.path.exists(p):
        return []
    with open(p) as f:
        d = json.load(f)
    return [e for e in d.get("findings", []) if e.get("property") == prop_id]


def start_selfcheck():
    """the repository's own tests through hook + stand-ins (translator validation, DESIGN §4.4)"""
    out = tempfile.mkdtemp(prefix="vf_self_")
    xml = os.path.join(out, "junit.xml")
    env = dict(os.environ, PYTHONPATH=VERIF, PYTHONDONTWRITEBYTECODE="1")
    p = subprocess.Popen([PY, "-m", "pytest", "-q", "-p", "no:cacheprovider", "-p", "vf.pytest_hook", "--timeout=900",
                          "--junitxml=" + xml], cwd=REPO, env=env, stdout=subprocess.PIPE, stderr=subprocess.STDOUT)
    return p, xml, out


def finish_selfcheck(h):
    p, xml, out = h
    try:
        txt = p.communicate(timeout=900)[0].decode("utf8", "replace")
    except subprocess.TimeoutExpired:
        p.kill()
        return False, "translator self-check timed out", 0
    passed = set()
    try:
        import xml.etree.ElementTree as ET
        for tc in ET.parse(xml).getroot().iter("testcase"):
            if not any(ch.tag in ("failure", "error", "skipped") for ch in tc):
                passed.add("%s::%s" % (tc.get("classname"), tc.get("name")))
    except Exception as e:
        return False, "translator self-check produced no result: %s / %s" % (e, txt[-400:]), 0
    finally:
        import shutil
        shutil.rmtree(out, ignore_errors=True)
    with open(os.path.join(VERIF, "vf", "baseline_pass.json")) as f:
        base = set(json.load(f))
    missing = sorted(base - passed)
    if missing:
        return False, "tests that pass on the real extension types fail under hook+stand-ins: %s" % missing[:5], len(passed & base)
    return True, "", len(passed & base)


def run_replays(prop_id, jobs):
    """jobs: list of dict(case=case_json, model=..., kind=...) -> list of outcomes; plain interpreter, real code"""
    if not jobs:
        return []
    with tempfile.TemporaryDirectory(prefix="vf_replay_") as td:
        inp, outp = os.path.join(td, "in.json"), os.path.join(td, "out.json")
        with open(inp, "w") as f:
            json.dump(dict(prop=prop_id, jobs=jobs), f)
        env = dict(os.environ, PYTHONDONTWRITEBYTECODE="1")
        env.pop("OKDMR_VERIF", None)
        r = subprocess.run([PY, "-m", "vf.replay", inp, outp], cwd=VERIF, env=env, stdout=subprocess.PIPE,
                           stderr=subprocess.STDOUT, timeout=1800)
        if not os.path.exists(outp):
            raise RuntimeError("replay process failed: " + r.stdout.decode("utf8", "replace")[-2000:])
        with open(outp) as f:
            return json.load(f)


def _worker_init():
    import signal
    signal.signal(signal.SIGINT, signal.SIG_IGN)


def _worker_run(args):
    import signal
    prop_id, cj, seed, known = args

    def _alarm(sig, frm):
        from sxl.explore import Inconclusive
        raise Inconclusive("hard watchdog: case exceeded budget")
    signal.signal(signal.SIGALRM, _alarm)
    signal.alarm(int(cj.get("budget_s", 120)) + 45)
    try:
        from vf.worker import run_case
        return run_case(prop_id, cj, seed, known)
    finally:
        signal.alarm(0)


def main(argv=None):
    ap = argparse.ArgumentParser()
    ap.add_argument("prop")
    ap.add_argument("--tier", default=os.environ.get("VERIF_TIER", "quick"), choices=["quick", "thorough"])
    ap.add_argument("--replay", default=None)
    ap.add_argument("--only", default=None, help="substring filter on case names (debugging; evidence not written)")
    ap.add_argument("--jobs", type=int, default=min(16, os.cpu_count() or 1))
    ap.add_argument("--no-selfcheck", action="store_true")
    ap.add_argument("--no-evidence", action="store_true", help="do not rewrite evidence/<id>.json (used when trying seeded changes in a scratch tree)")
    ap.add_argument("--verbose", "-v", action="store_true")
    a = ap.parse_args(argv)
    prop = a.prop
    seed = int(os.environ.get("VERIF_SEED", "0") or 0)
    t0 = time.time()

    if a.replay:
        from vf.worker import boot_plain, replay_one
        boot_plain()
        with open(a.replay) as f:
            d = json.load(f)
        out = replay_one(d["property"], d["case"], d["model"])
        print(json.dumps(out, indent=1))
        if out["outcome"] == "violated":
            print("VIOLATION property=%s replay=%s" % (d["property"], a.replay))
            return 1
        return 0

    selfh = None if (a.no_selfcheck or a.only) else start_selfcheck()

    from vf.worker import boot_symbolic
    boot_symbolic()
    import importlib
    mod = importlib.import_module("props.%s" % prop)
    cases = mod.cases(a.tier, seed)
    from vf import state
    state.process_guard()          # snapshot of the library's global mutable state while it is still pristine
    if a.only:
        cases = [c for c in cases if a.only in c.name]
    known_entries = load_known(prop)
    active_known = sorted(e["id"] for e in known_entries if e.get("status") == "known")

    import multiprocessing as mp
    ctx = mp.get_context("fork")
    order = sorted(range(len(cases)), key=lambda i: -cases[i].budget_s)
    work = [(prop, cases[i].to_json(), seed, active_known) for i in order]
    results = []
    limit = getattr(mod, "WALL_LIMIT_S", {}).get(a.tier, 1500 if a.tier == "quick" else 7200)
    with ctx.Pool(processes=max(1, min(a.jobs, len(work))), initializer=_worker_init, maxtasksperchild=getattr(mod, "TASKS_PER_CHILD", 50)) as pool:
        it = pool.imap_unordered(_worker_run, work, chunksize=1)
        pending = len(work)
        timed_out = False
        while pending:
            try:
                r = it.next(timeout=max(1.0, limit - (time.time() - t0)))
            except mp.TimeoutError:
                timed_out = True
                break
            pending -= 1
            results.append(r)
            if a.verbose:
                print("  [%s] %s paths=%d obl=%d/%d %.1fs %s" % (r["status"], r["case"], r["paths"], r["discharged"], r["obligations"],
                                                              r["wall_s"], r.get("inconclusive") or ""), flush=True)
                if r.get("traceback"):
                    print(r["traceback"])
        if timed_out:
            pool.terminate()
    case_by_name = {c.name: c for c in cases}

    # ---------------------------------------------------------------- replay on the real code
    jobs = []
    for r in results:
        cj = case_by_name[r["case"]].to_json()
        for v in r["violations"]:
            jobs.append(dict(kind="violation", case=cj, model=v["model"], label=v["label"], pretty=v["pretty"]))
        for k in r["known_hits"]:
            jobs.append(dict(kind="known", case=cj, model=k["model"], label=k["label"], id=k["id"], pretty=k["pretty"]))
    # witnesses: a bounded number per case (first of each class)
    wit_jobs = []
    for r in results:
        cj = case_by_name[r["case"]].to_json()
        for lab, w in list(r["covers"].items())[: (8 if a.tier == "quick" else 64)]:
            wit_jobs.append(dict(kind="witness", case=cj, model=w["model"], label=lab, pretty=w["pretty"]))
    maxw = 150 if a.tier == "quick" else 1000
    wit_jobs = wit_jobs[:maxw]
    outs = run_replays(prop, jobs + wit_jobs)
    problems = []
    violations, known_seen, engine_defects = [], {}, []
    wit_ok = 0
    for job, out in zip(jobs + wit_jobs, outs):
        if job["kind"] == "violation":
            if out["outcome"] == "violated":
                violations.append((job, out))
            else:
                engine_defects.append("model for %r in case %s does not reproduce on the real code (%s %s)" % (
                    job["label"], job["case"]["name"], out["outcome"], out.get("error") or ""))
        elif job["kind"] == "known":
            if out["outcome"] == "violated":
                known_seen.setdefault(job["id"], (job, out))
            else:
                engine_defects.append("known-finding model %s does not reproduce (%s %s)" % (job["id"], out["outcome"], out.get("error") or ""))
        else:
            if out["outcome"] == "passed" or (out["outcome"] == "violated" and any(j["case"]["name"] == job["case"]["name"] for j in jobs)):
                wit_ok += 1
            elif out["outcome"] == "violated":
                engine_defects.append("witness of case %s class %s violates %r concretely although the solver discharged it" % (
                    job["case"]["name"], job["label"], out["label"]))
            else:
                engine_defects.append("witness of case %s class %s: %s %s" % (job["case"]["name"], job["label"], out["outcome"], out.get("error") or ""))

    try:
        from sxl import crosscheck
        xs_ok, xs_res = crosscheck.selftest()
    except Exception as e:
        xs_ok, xs_res = False, repr(e)
    if not xs_ok:
        problems.append("cross-check canaries failed (cvc5 through the SMT-LIB emitter): %r" % (xs_res,))
    for r in results:
        if r["status"] in ("inconclusive", "error"):
            problems.append("case %s: %s" % (r["case"], r["inconclusive"]))
            if r.get("traceback") and a.verbose:
                print(r["traceback"])
        if r["missing_covers"] and r["status"] == "ok":
            problems.append("case %s: vacuity — path classes never witnessed: %s" % (r["case"], r["missing_covers"]))
    if timed_out:
        done = {r["case"] for r in results}
        problems.append("wall limit %ds reached; unfinished cases: %s" % (limit, [c.name for c in cases if c.name not in done][:10]))
    problems.extend(engine_defects)

    self_ok, self_msg, self_n = True, "", 0
    if selfh is not None:
        self_ok, self_msg, self_n = finish_selfcheck(selfh)
        if not self_ok:
            problems.append(self_msg)

    # ---------------------------------------------------------------- report
    rc = 0
    os.makedirs(os.path.join(VERIF, "replays", prop), exist_ok=True)
    vio_lines = []
    for nv, (job, out) in enumerate(violations):
        if nv >= 12:
            print("  ... %d further violations not listed" % (len(violations) - nv))
            break
        body = dict(property=prop, case=job["case"], model=job["model"], label=job["label"], pretty=job["pretty"],
                    replay_outcome=out)
        h = hashlib.sha1(json.dumps([job["case"]["name"], job["label"], job["model"]], sort_keys=True).encode()).hexdigest()[:12]
        path = os.path.join(VERIF, "replays", prop, h + ".json")
        with open(path, "w") as f:
            json.dump(body, f, indent=1)
        print("  violated: case=%s  %s\n    input: %s" % (job["case"]["name"], job["label"], json.dumps(job["pretty"])[:600]))
        print("VIOLATION property=%s replay=%s" % (prop, path))
        vio_lines.append(path)
        rc = 1
    for kid, (job, out) in sorted(known_seen.items()):
        ent = [e for e in known_entries if e["id"] == kid][0]
        print("KNOWN-FINDING: property=%s %s — %s [witness: case=%s %s]" % (prop, kid, ent.get("what", ""), job["case"]["name"],
                                                                            json.dumps(job["pretty"])[:300]))
    if problems and rc == 0:
        rc = 2
    for pmsg in problems:
        print("INCONCLUSIVE property=%s %s" % (prop, pmsg))

    wall = time.time() - t0
    if not a.only and not a.no_evidence:
        write_evidence(prop, a.tier, seed, mod, cases, results, violations, known_seen, problems, wit_ok, len(wit_jobs),
                       self_n if selfh is not None else None, wall, active_known)
    tot_o = sum(r["obligations"] for r in results)
    tot_d = sum(r["discharged"] for r in results)
    xq = sum(r["stats"].get("xc_queries", 0) for r in results)
    xa = sum(r["stats"].get("xc_agree", 0) for r in results)
    print("%s %s: cases=%d paths=%d obligations=%d discharged=%d violations=%d known=%d inconclusive=%d crosscheck=%d/%d wall=%.1fs -> exit %d" % (
        prop, a.tier, len(results), sum(r["paths"] for r in results), tot_o, tot_d, len(violations), len(known_seen), len(problems), xa, xq, wall, rc))
    return rc


def write_evidence(prop, tier, seed, mod, cases, results, violations, known_seen, problems, wit_ok, wit_n, self_n, wall, active_known):
    from vf import stubs
    entered = sorted({e for r in results for e in r["entered"]})
    from sxl import rewrite
    modules = sorted(rewrite.LOADED)
    tot = lambda k: sum(r[k] for r in results)
    st_keys = ("decisions", "feasibility_queries", "xor_lemmas", "gauss", "free_queries", "assumed_feasible", "summary_paths",
               "concretizations", "aborted", "rt_sweeps", "rt_sweep_queries", "rt_mux", "rt_mux_linear", "rt_pred_if", "rt_ite",
               "rt_choice", "rt_summaries", "rt_tabulations", "rt_lazy_calls", "gauss_obligations", "exact_fallbacks", "exact_retries", "rt_alias_forks", "rt_inplace_merges", "rt_pred_fail", "cvc5_fallbacks", "cvc5_fallback_decided",
               "twin_timeouts")
    agg = {k: sum(r["stats"].get(k, 0) for r in results) for k in st_keys}
    solver_s = round(sum(r["stats"].get("solver_s", 0.0) for r in results), 2)
    samples = []
    for r in results[:400]:
        for lab, w in list(r["covers"].items())[:1]:
            if len(samples) < 6:
                samples.append(dict(case=r["case"], path_class=lab, witness_input=w["pretty"], obligations_on_case=r["obligations"]))
    for job, out in violations[:3]:
        samples.append(dict(case=job["case"]["name"], violated=job["label"], input=job["pretty"]))
    if not samples:
        samples.append(dict(note="no case produced a witness", cases=[c.name for c in cases[:5]]))
    nontrivial = tot("nontrivial")
    ev = dict(
        property_id=prop, tier=tier, seed=seed, level="other",
        coverage=dict(
            explanation=("Bounded symbolic execution of the real okdmr.dmrlib modules (compiled from %s's current source through the sxl "
                         "AST-rewriting import hook; bitarray/numpy/bytes replaced by bit-precise symbolic stand-ins) with z3 deciding every "
                         "obligation 'path condition => assertion' over ALL values of the symbolic inputs inside the stated bounds. "
                         "unsat = holds for every input in the bound; sat = model, replayed on the unmodified code with the real extension "
                         "types before being reported. " % REPO) + (getattr(mod, "EXPLANATION", "") or ""),
            obligations=tot("obligations"), discharged=tot("discharged"),
            closed_after_normalisation=tot("trivial"),
            needed_solver_search=tot("obligations") - tot("trivial"),
            evaluations=tot("paths"), distinct_nontrivial=nontrivial,
            rule=("evaluations = symbolic paths explored (each covers every input value satisfying its path condition); "
                  "distinct_nontrivial = number of distinct (case, obligation label) pairs whose formula was not closed by the GF(2) normal "
                  "form alone and went to the solver as a genuinely symbolic query, counted by the engine"),
            cases=len(results), cases_declared=len(cases),
            bounds=getattr(mod, "BOUNDS", {}).get(tier, ""),
            outside_bounds=getattr(mod, "OUTSIDE", ""),
            per_case_bounds=sorted({r["bounds"] for r in results if r["bounds"]})[:40],
            functions_encoded=entered[:400], modules_encoded=modules,
            solver="z3 %s (python API), affine-atom abstraction + Gauss-Jordan CEGAR; cvc5 1.4.0 on a cross-check sample" % _z3v(),
            solver_time_s=solver_s, engine_counters=agg,
            cross_check=dict(
                what=("sample of discharged obligations re-decided by cvc5 1.4.0 on the EXACT bit-level encoding, written as SMT-LIB2 by an "
                      "emitter independent of the z3 translation, the affine-atom abstraction and the Gauss-Jordan layer (sxl/crosscheck.py); "
                      "a 'sat' from cvc5 on an obligation z3 discharged makes the run inconclusive"),
                queries=sum(r["stats"].get("xc_queries", 0) for r in results),
                agree_unsat=sum(r["stats"].get("xc_agree", 0) for r in results),
                cvc5_undecided_in_budget=sum(r["stats"].get("xc_undecided", 0) for r in results),
                disagreements=0 if not any("solver disagreement" in (p or "") for p in problems) else sum("solver disagreement" in p for p in problems),
                largest_cone_and_nodes=max([r["stats"].get("xc_max_nodes", 0) for r in results] or [0]),
                cvc5_time_s=round(sum(r["stats"].get("xc_s", 0.0) for r in results), 2)),
            vacuity_witnesses=dict(found=sum(len(r["covers"]) for r in results), replayed_on_real_code=wit_n, replay_ok=wit_ok,
                                   missing=[(r["case"], r["missing_covers"]) for r in results if r["missing_covers"]][:20]),
            traces_validated_against_impl=wit_ok,
            translator_selfcheck_tests_passed_under_hook=self_n,
            known_findings_active=active_known, known_findings_observed=sorted(known_seen),
            inconclusive=problems[:20],
            checker_cmd="./check %s --tier %s" % (prop, tier),
            trusted_base=["CPython 3.12", "sxl rewriter + stand-ins (validated by the repo's 204 tests under the hook and by replaying every witness/model on the real types)",
                          "z3 5.1.0", "reference oracles in props/%s.py" % prop],
            samples=samples,
        ),
        assumptions=list(getattr(mod, "ASSUMPTIONS", [])) + stubs.LIST,
        wall_s=round(wall, 2), violations=len(violations),
    )
    os.makedirs(os.path.join(VERIF, "evidence"), exist_ok=True)
    with open(os.path.join(VERIF, "evidence", prop + ".json"), "w") as f:
        json.dump(ev, f, indent=1, default=str)


def _z3v():
    try:
        import z3
        return z3.get_version_string()
    except Exception:
        return "?"


if __name__ == "__main__":
    sys.exit(main())
