"""pytest plugin: run the repository's own tests through the import hook and the stand-ins (concrete mode).
Validates the translator (rewriter + bitarray/numpy stand-ins) against every captured vector of the suite."""
import os
import sys

VERIF = os.path.dirname(os.path.dirname(os.path.abspath(__file__)))
sys.path.insert(0, os.path.join(VERIF, "shims"))
sys.path.insert(1, VERIF)
sys.dont_write_bytecode = True
os.environ["OKDMR_VERIF"] = "1"
from sxl import rewrite, runtime  # noqa: E402

runtime._DISPATCH.pop(print, None)      # tests assert on captured output
rewrite.install()
