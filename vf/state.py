"""vf.state — isolation of the library's process-global mutable state between explored paths / replay jobs.

The explorer re-executes the harness once per path and assumes every execution starts from the same state.  Module- and
class-level containers, functools caches and mutable default arguments of the library (the places a purity bug hides in) would
leak values from one path into the next, so they are snapshotted once per case and put back before every path."""
import copy
import sys
import types

PREFIX = "okdmr.dmrlib"
_MUT = (dict, list, set, bytearray)


def _is_mut(o):
    if isinstance(o, _MUT):
        return True
    return type(o).__name__ == "bitarray"


def _snap(o):
    try:
        return copy.deepcopy(o)
    except Exception:
        return None


def _restore(o, s):
    try:
        if isinstance(o, dict):
            if len(o) != len(s) or any(k not in o for k in s) or any(o[k] is not s[k] and _differs(o[k], s[k]) for k in s):
                o.clear()
                o.update(copy.deepcopy(s))
        elif isinstance(o, list):
            if len(o) != len(s) or any(_differs(a, b) for a, b in zip(o, s)):
                o[:] = copy.deepcopy(s)
        elif isinstance(o, set):
            if o != s:
                o.clear()
                o.update(s)
        elif isinstance(o, bytearray):
            if o != s:
                o[:] = s
        elif type(o).__name__ == "bitarray":
            if len(o) != len(s) or o.tolist() != s.tolist():
                del o[:]
                o.extend(s)
    except Exception:
        pass


def _differs(a, b):
    try:
        if a is b:
            return False
        if type(a) is not type(b):
            return True
        r = a == b
        if r is True:
            return False
        if r is False:
            return True
        return True
    except Exception:
        return True


_GUARD = None


def process_guard():
    """one guard per process: the first snapshot is taken in the parent right after the library was imported (clean state, inherited
    by the forked workers); modules imported later are added when first seen"""
    global _GUARD
    if _GUARD is None:
        _GUARD = StateGuard()
    else:
        _GUARD.scan()
    return _GUARD


class StateGuard:
    def __init__(self):
        self.items = []      # (object, snapshot)
        self.caches = []     # (lru wrapper, currsize at snapshot)
        self.attrs = []      # (owner class / module, name, value) — plain attributes that code may rebind (counters, 'last state')
        self.seen = set()
        self.mods = set()
        self.scan()

    def scan(self):
        seen = self.seen
        for name, mod in list(sys.modules.items()):
            if mod is None or not (name == PREFIX or name.startswith(PREFIX + ".")) or name in self.mods:
                continue
            self.mods.add(name)
            for k, v in list(vars(mod).items()):
                if k.startswith("__") or k == "_sx_":
                    continue
                if isinstance(v, types.ModuleType):
                    continue
                if v is None or isinstance(v, (int, float, str, bytes, tuple, frozenset, bool)):
                    self.attrs.append((mod, k, v))
                self._visit(v, seen, mod.__name__)

    def _visit(self, v, seen, modname, depth=0):
        if id(v) in seen:
            return
        if _is_mut(v):
            seen.add(id(v))
            if isinstance(v, (dict, list, set)) and len(v) > 5000:
                return
            s = _snap(v)
            if s is not None:
                self.items.append((v, s))
            return
        if hasattr(v, "cache_clear") and hasattr(v, "cache_info"):
            seen.add(id(v))
            try:
                self.caches.append((v, v.cache_info().currsize))
            except Exception:
                pass
            v = getattr(v, "__wrapped__", None)
            if v is None:
                return
        if isinstance(v, (staticmethod, classmethod)):
            v = v.__func__
        if isinstance(v, types.FunctionType):
            if getattr(v, "__module__", "") and v.__module__.startswith(PREFIX):
                seen.add(id(v))
                for d in (v.__defaults__ or ()):
                    self._visit(d, seen, modname, depth + 1)
                for d in (v.__kwdefaults__ or {}).values():
                    self._visit(d, seen, modname, depth + 1)
            return
        if isinstance(v, type) and getattr(v, "__module__", "").startswith(PREFIX) and depth < 2:
            seen.add(id(v))
            import enum
            for k2, v2 in list(vars(v).items()):
                if k2.startswith("__") and k2 not in ("__init__",):
                    continue
                if issubclass(v, enum.Enum) and k2.startswith("_"):
                    continue
                if v2 is None or isinstance(v2, (int, float, str, bytes, tuple, frozenset, bool)) and not issubclass(v, enum.Enum):
                    self.attrs.append((v, k2, v2))
                self._visit(v2, seen, modname, depth + 1)

    def restore(self):
        for owner, name, val in self.attrs:
            try:
                if getattr(owner, name, val) is not val:
                    setattr(owner, name, val)
            except Exception:
                pass
        for o, s in self.items:
            _restore(o, s)
        for c, size in self.caches:
            try:
                if c.cache_info().currsize != size:
                    c.cache_clear()
            except Exception:
                pass
