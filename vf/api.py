"""vf.api — the harness API.  The same harness function runs
  * symbolically (mode "sym"): inputs are fresh solver variables, `prove` is an obligation for the solver;
  * concretely  (mode "replay"): inputs come from a solver model, the real bitarray/numpy/okdmr modules are used
    (no import hook, no stand-ins) and `prove` is a plain assertion.
"""
from sxl.bits import Bit, CTX, band, bor, bnot, bxor, conj, disj, tobit
from sxl.ints import SInt
from sxl.sbytes import SBytes, SByteArray


class ReplayViolation(Exception):
    def __init__(self, label):
        Exception.__init__(self, label)
        self.label = label


class ReplayAssumeFailed(Exception):
    pass


# ------------------------------------------------------------------------------ condition helpers (both modes)
def T(x):
    """condition -> Bit | 0 | 1"""
    if x.__class__ is Bit:
        return x
    if x is True or x is False:
        return int(x)
    from sxl import runtime
    c = runtime.as_cond(x)
    if c.__class__ is Bit:
        return c
    return 1 if c else 0


def AND(*xs):
    return conj(T(x) for x in xs)


def OR(*xs):
    return disj(T(x) for x in xs)


def NOT(x):
    return bnot(T(x))


def IMPLIES(a, b):
    return bor(bnot(T(a)), T(b))


def IFF(a, b):
    return bnot(bxor(T(a), T(b)))


def EQ(a, b):
    """structural equality of possibly symbolic values -> Bit | 0 | 1"""
    from sxl import runtime
    if isinstance(a, (list, tuple)) and isinstance(b, (list, tuple)):
        if len(a) != len(b):
            return 0
        return conj(EQ(x, y) for x, y in zip(a, b))
    return T(runtime.as_cond(a == b))


def weight(bits):
    """number of set bits (SInt | int)"""
    s = 0
    for b in bits:
        s = s + (SInt.of(b) if b.__class__ is Bit else int(b))
    return s


def is_control(e):
    from sxl.explore import PathAbort, Inconclusive, Violation
    return isinstance(e, (PathAbort, Inconclusive, Violation))


class HX:
    """handed to every harness function"""

    def __init__(self, mode, model=None, explorer=None, seed=0):
        self.mode = mode
        self.model = model or {}
        self.ex = explorer
        self.seed = seed
        self.covers = {}          # label -> model (sym) / True (replay)
        self.path_covers = []
        self.replay_log = []
        self._names = set()

    # -------------------------------------------------------------- inputs
    def _v(self, name):
        if self.mode == "sym":
            return CTX.var(name)
        return int(self.model.get(name, 0))

    def bit(self, name):
        return self._v(name)

    def bits(self, n, name):
        return [self._v("%s[%d]" % (name, i)) for i in range(n)]

    def ba(self, n, name, endian="big"):
        from bitarray import bitarray
        return bitarray(self.bits(n, name), endian=endian)

    def int(self, nbits, name):
        """unsigned integer of nbits"""
        b = [self._v("%s.%d" % (name, k)) for k in range(nbits)]
        r = SInt.from_bits(b)
        return r

    def sint(self, nbits, name):
        """two's complement signed integer of nbits"""
        b = [self._v("%s.%d" % (name, k)) for k in range(nbits)]
        r = SInt.from_tc(b)
        if r.__class__ is SInt:
            return r.norm()
        return r

    def bytes(self, n, name):
        octs = [self.int(8, "%s[%d]" % (name, i)) for i in range(n)]
        if self.mode == "sym":
            return SBytes(octs) if n else b""
        return bytes(octs)

    def dyadic(self, n, e):
        """float with the exact value n / 2**e (n may be symbolic); the harness must keep n within 53 significant bits"""
        if self.mode == "sym":
            from sxl.sfloat import SDyad
            return SDyad(n, e)
        return n / float(1 << e)

    def text(self, n, name):
        """n characters in the ASCII range (symbolic 7-bit code points)"""
        codes = [self.int(7, "%s[%d]" % (name, i)) for i in range(n)]
        if self.mode == "sym":
            from sxl.sstr import SStr
            return SStr(codes) if n else ""
        return "".join(chr(c) for c in codes)

    def flag(self, name):
        """declared two-way case split (forks)"""
        b = self._v(name)
        if self.mode == "sym":
            return self.ex.decide(b)
        return bool(b)

    def pick(self, name, options):
        """declared n-way case split over a concrete list (forks)"""
        n = len(options)
        if n == 1:
            return options[0]
        k = max(1, (n - 1).bit_length())
        idx = self.int(k, name)
        if self.mode == "sym":
            self.assume(idx < n)
            for i in range(n - 1):
                if self.ex.decide(T(idx == i)):
                    return options[i]
            return options[n - 1]
        if idx >= n:
            raise ReplayAssumeFailed("pick %s out of range" % name)
        return options[idx]

    def choose(self, c):
        """declared two-way split on a condition over symbolic values: returns a plain bool (forks in the symbolic run)"""
        c = T(c)
        if c.__class__ is Bit:
            return self.ex.decide(c)
        return bool(c)

    def concretize(self, x):
        """fork over the feasible values of a symbolic int (declared split)"""
        if x.__class__ is SInt:
            return x.__index__()
        if x.__class__ is Bit:
            return 1 if self.ex.decide(x) else 0
        return int(x)

    # -------------------------------------------------------------- assumptions / obligations
    def assume(self, c):
        c = T(c)
        if self.mode == "sym":
            self.ex.assume(c)
        elif not c:
            raise ReplayAssumeFailed()

    def prove(self, c, label, known=None):
        c = T(c)
        if self.mode == "sym":
            if known:
                known = {k: T(v) for k, v in known.items()}
            self.ex.prove(c, label, known)
        else:
            ok = bool(c)
            self.replay_log.append((label, ok))
            if not ok:
                raise ReplayViolation(label)

    def fail(self, label, known=None):
        self.prove(False, label, known)

    def cover(self, label):
        """path-class marker for the vacuity twin: the class must be witnessed by a satisfiable path"""
        if self.mode == "sym":
            self.path_covers.append(label)
        else:
            self.covers[label] = True

    def guard(self, fn, *a, **k):
        """call fn; returns ("ok", result) or ("exc", exception); engine control exceptions pass through"""
        try:
            return "ok", fn(*a, **k)
        except Exception as e:          # Control exceptions derive from BaseException and are not caught
            import os
            want = os.environ.get("VF_TRACE_EXC")
            if want and type(e).__name__ in want.split(","):
                import traceback
                traceback.print_exc()
            return "exc", e

    @property
    def symbolic(self):
        return self.mode == "sym"


class Case:
    """one unit of work for a worker process"""

    def __init__(self, name, fn, params=None, covers=(), budget_s=120, opts=None, bounds=""):
        self.name = name              # unique within the property
        self.fn = fn                  # name of the harness function in the property module
        self.params = params or {}
        self.covers = list(covers)    # path classes that must be witnessed
        self.budget_s = budget_s
        self.opts = opts or {}        # merge_calls / lazy_calls / tabulate_calls / sweep / max_paths / solver_timeout_ms
        self.bounds = bounds

    def to_json(self):
        return dict(name=self.name, fn=self.fn, params=self.params, covers=self.covers, budget_s=self.budget_s,
                    opts=self.opts, bounds=self.bounds)

    @staticmethod
    def from_json(d):
        return Case(d["name"], d["fn"], d.get("params"), d.get("covers", ()), d.get("budget_s", 120), d.get("opts"),
                    d.get("bounds", ""))
