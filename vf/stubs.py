"""vf.stubs — environment stubs for the symbolic process (listed in every evidence file)."""

LIST = [
    "logging disabled (logging.disable(CRITICAL)); print() is a no-op in library code",
    "secrets.token_bytes(n) -> n fresh symbolic octets",
    "text built from symbolic values (repr/format) is an opaque string; comparing it makes the run inconclusive",
]


def install():
    from sxl import runtime
    runtime._DISPATCH[print] = runtime._print
