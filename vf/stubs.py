"""vf.stubs — environment stubs for the symbolic process (listed in every evidence file)."""

LIST = [
    "kaitai: KaitaiStream is replaced by a stream over symbolic bytes (sxl/kstream.py); the generated parser classes themselves run unmodified",
    "logging disabled (logging.disable(CRITICAL)); print() is a no-op in library code",
    "secrets.token_bytes(n) -> n fresh symbolic octets",
    "text built from symbolic values (repr/format) is an opaque string; comparing it makes the run inconclusive",
]


def install():
    from sxl import runtime
    runtime._DISPATCH[print] = runtime._print
    import socket

    def _inet_ntoa(b):
        from sxl.sbytes import SBytes
        if isinstance(b, SBytes):
            if all(isinstance(o, int) for o in b.o):
                return socket.inet_ntoa(bytes(b.o))
            from sxl.explore import Inconclusive
            raise Inconclusive("inet_ntoa of symbolic octets (dotted-quad text of a symbolic address is not modelled)")
        return socket.inet_ntoa(b)
    runtime._DISPATCH[socket.inet_ntoa] = _inet_ntoa
    import binascii

    def _hexlify(d, *a):
        from sxl.sbytes import SBytes
        if isinstance(d, SBytes):
            return runtime.OpaqueStr("<sym-hex>")
        return binascii.hexlify(d, *a)
    runtime._DISPATCH[binascii.hexlify] = _hexlify
    try:
        from kaitaistruct import KaitaiStream
        from sxl import kstream
        runtime._DISPATCH[KaitaiStream.resolve_enum] = kstream.resolve_enum
    except ImportError:
        pass
