from bitarray import bitarray
from sxl.bits import Bit
from sxl.ints import SInt


def ba2int(a, signed=False):
    if not isinstance(a, bitarray):
        raise TypeError("bitarray expected, got %r" % type(a))
    if len(a) == 0:
        raise ValueError("non-empty bitarray expected")
    bits = list(a._b)
    if a._endian == "big":
        bits = bits[::-1]                      # now LSB first
    if signed:
        r = SInt.from_tc(bits)
    else:
        r = SInt.from_bits(bits)
    return r


def int2ba(i, length=None, endian=None, signed=False):
    endian = endian or "big"
    if isinstance(i, Bit):
        i = SInt.of(i)
    if isinstance(i, SInt):
        if length is None:
            raise TypeError("sxl: int2ba of a symbolic int needs an explicit length")
        lo, hi = i.interval()
        from sxl import explore
        if signed:
            if lo < -(1 << (length - 1)) or hi >= (1 << (length - 1)):
                from sxl.bits import band, tobit
                if not explore.decide(band(tobit(i >= -(1 << (length - 1))), tobit(i < (1 << (length - 1))))):
                    raise OverflowError("signed integer not in range")
            bits = i.tc(length) if i.width() <= length else i.tc()[:length]
            bits = bits + [bits[-1]] * (length - len(bits))
        else:
            if lo < 0:
                if not explore.decide(i >= 0):
                    raise OverflowError("unsigned integer not positive")
            if hi >= (1 << length):
                if not explore.decide(i < (1 << length)):
                    raise OverflowError("unsigned integer not in range(0, 2**%d)" % length)
            bits = i.tc(length + 1)[:length]
        bits = bits[::-1]                       # MSB first
        if endian == "little":
            bits = bits[::-1]
        return bitarray(bits, endian=endian)
    if not isinstance(i, int):
        raise TypeError("int expected, got %r" % type(i))
    if signed:
        if length is None:
            length = max(i.bit_length(), (-i - 1).bit_length()) + 1 if i else 1
        if not (-(1 << (length - 1)) <= i < (1 << (length - 1))):
            raise OverflowError("signed integer not in range(%d, %d), got %d" % (-(1 << (length - 1)), 1 << (length - 1), i))
        i &= (1 << length) - 1
    else:
        if i < 0:
            raise OverflowError("unsigned integer not positive, got %d" % i)
        if length is not None and i >= (1 << length):
            raise OverflowError("unsigned integer not in range(0, %d), got %d" % (1 << length, i))
    if length is None:
        length = max(i.bit_length(), 1)
    bits = [(i >> (length - 1 - k)) & 1 for k in range(length)]
    if endian == "little":
        bits = bits[::-1]
    return bitarray(bits, endian=endian)


def zeros(n, endian=None):
    return bitarray([0] * n, endian=endian or "big")


def ba2hex(a):
    return a.tobytes().hex()[: len(a) // 4]


def hex2ba(s, endian=None):
    r = bitarray(endian=endian or "big")
    for ch in s:
        v = int(ch, 16)
        bits = [(v >> (3 - k)) & 1 for k in range(4)]
        if (endian or "big") == "little":
            bits = bits[::-1]
        r.extend(bits)
    return r
