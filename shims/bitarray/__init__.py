"""Pure-Python stand-in for bitarray.bitarray whose elements are int (0/1) or sxl Bit."""
from sxl.bits import Bit, bxor, band, bor, bnot, bite, tobit, conj, next_serial

__version__ = "3.11.0-sxl"


def _b(x):
    if x.__class__ is Bit:
        return x
    if x is True or x is False:
        return int(x)
    if x.__class__ is int:
        if x in (0, 1):
            return x
        raise ValueError("bit must be 0 or 1, got %r" % (x,))
    return tobit(x)


class bitarray:
    __slots__ = ("_b", "_endian", "_ser")

    def __init__(self, init=None, endian="big", buffer=None):
        self._ser = next_serial()
        self._endian = endian
        if init is None:
            self._b = []
        elif isinstance(init, bitarray):
            self._b = list(init._b)
            self._endian = init._endian if endian == "big" else endian
        elif isinstance(init, bool):
            raise TypeError("cannot create bitarray from bool")
        elif isinstance(init, int):
            self._b = [0] * init
        elif isinstance(init, str):
            self._b = []
            for c in init:
                if c in "01":
                    self._b.append(int(c))
                elif c in " \t\n\r\v_":
                    continue
                else:
                    raise ValueError("expected '0' or '1' (or whitespace, or underscore), got %r" % c)
        else:
            self._b = [_b(x) for x in init]

    # -- basics
    def endian(self):
        return self._endian

    def __len__(self):
        return len(self._b)

    def __iter__(self):
        return iter(self._b)

    def _new(self, bits):
        r = bitarray.__new__(bitarray)
        r._ser = next_serial()
        r._b = bits
        r._endian = self._endian
        return r

    def __getitem__(self, i):
        if isinstance(i, slice):
            return self._new(self._b[i])
        return self._b[i.__index__()]

    def __setitem__(self, i, v):
        if isinstance(i, slice):
            if isinstance(v, bitarray):
                vals = v._b
                if i.step not in (None, 1) and len(self._b[i]) != len(vals):
                    raise ValueError("attempt to assign sequence of size %d to extended slice of size %d" % (len(vals), len(self._b[i])))
                self._b[i] = vals
            else:
                v = _b(v)
                idx = range(*i.indices(len(self._b)))
                for k in idx:
                    self._b[k] = v
        else:
            self._b[i.__index__()] = _b(v)

    def __delitem__(self, i):
        del self._b[i]

    def tolist(self):
        return list(self._b)

    def to01(self):
        return "".join(str(x) if x.__class__ is not Bit else "?" for x in self._b)

    def copy(self):
        return self._new(list(self._b))

    __copy__ = copy

    def __deepcopy__(self, memo):
        return self.copy()

    def __add__(self, o):
        if not isinstance(o, (bitarray, list, tuple, str)):
            return NotImplemented
        r = self.copy()
        r.extend(o)
        return r

    def __radd__(self, o):
        return NotImplemented

    def __iadd__(self, o):
        self.extend(o)
        return self

    def __mul__(self, n):
        return self._new(self._b * n)

    def extend(self, o):
        if isinstance(o, str):
            o = bitarray(o)
        if isinstance(o, bitarray):
            self._b.extend(o._b)
        else:
            self._b.extend(_b(x) for x in o)

    def append(self, x):
        self._b.append(_b(x))

    def insert(self, i, x):
        self._b.insert(i, _b(x))

    def pop(self, i=-1):
        return self._b.pop(i)

    def invert(self, i=None):
        if i is None:
            self._b = [bnot(b) for b in self._b]
        else:
            from sxl.ints import SInt
            if i.__class__ is SInt and i.terms:
                from sxl.bits import tobit
                for j in range(len(self._b)):
                    e = i == j
                    self._b[j] = bxor(self._b[j], e if e.__class__ is Bit else int(bool(e)))
                return
            i = i.__index__()
            self._b[i] = bnot(self._b[i])

    def reverse(self):
        self._b.reverse()

    def fill(self):
        pad = -len(self._b) % 8
        self._b.extend([0] * pad)
        return pad

    def bytereverse(self, start=0, stop=None):
        n = (len(self._b) + 7) // 8
        pad = 8 * n - len(self._b)
        b = self._b + [0] * pad
        stop = n if stop is None else stop
        for k in range(start, stop):
            b[8 * k : 8 * k + 8] = b[8 * k : 8 * k + 8][::-1]
        self._b = b[: len(b) - pad] if pad else b

    def setall(self, v):
        self._b = [_b(v)] * len(self._b)

    def count(self, value=1, *a):
        if any(x.__class__ is Bit for x in self._b):
            from sxl.ints import SInt
            s = 0
            for x in self._b:
                s = s + (SInt.of(x) if x.__class__ is Bit else x)
            return s if value else len(self._b) - s
        return sum(self._b) if value else len(self._b) - sum(self._b)

    def any(self):
        from sxl.bits import disj
        r = disj(self._b)
        return r if r.__class__ is Bit else bool(r)

    def all(self):
        r = conj(self._b)
        return r if r.__class__ is Bit else bool(r)

    # -- bytes
    def frombytes(self, data):
        from sxl.sbytes import octet_bits
        for byte in data:
            bits = octet_bits(byte)          # MSB first
            if self._endian == "little":
                bits = bits[::-1]
            self._b.extend(bits)

    def tobytes(self):
        from sxl.sbytes import SBytes, octet_from_bits
        bits = self._b + [0] * (-len(self._b) % 8)
        out = []
        for i in range(0, len(bits), 8):
            ch = bits[i : i + 8]
            if self._endian == "little":
                ch = ch[::-1]
            out.append(octet_from_bits(ch))
        if all(o.__class__ is int for o in out):
            return bytes(out)
        return SBytes(out)

    # -- bitwise
    def _zip(self, o, f):
        if not isinstance(o, bitarray):
            return NotImplemented
        if len(self._b) != len(o._b):
            raise ValueError("bitarrays of equal length expected for bitwise operation")
        if self._endian != o._endian:
            raise ValueError("bitarrays of equal bit-endianness expected")
        return self._new([f(a, b) for a, b in zip(self._b, o._b)])

    def __xor__(self, o): return self._zip(o, bxor)
    def __and__(self, o): return self._zip(o, band)
    def __or__(self, o): return self._zip(o, bor)
    def __ixor__(self, o):
        r = self._zip(o, bxor); self._b = r._b; return self
    def __iand__(self, o):
        r = self._zip(o, band); self._b = r._b; return self
    def __ior__(self, o):
        r = self._zip(o, bor); self._b = r._b; return self

    def __invert__(self):
        return self._new([bnot(b) for b in self._b])

    def __lshift__(self, k):
        n = len(self._b)
        if k < 0:
            raise ValueError("negative shift count")
        k = min(k, n)
        return self._new(self._b[k:] + [0] * k)

    def __rshift__(self, k):
        n = len(self._b)
        if k < 0:
            raise ValueError("negative shift count")
        k = min(k, n)
        return self._new([0] * k + self._b[: n - k])

    def __ilshift__(self, k):
        self._b = (self << k)._b
        return self

    def __irshift__(self, k):
        self._b = (self >> k)._b
        return self

    # -- comparisons (lexicographic, like sequences)
    def _lt(self, o):
        n = min(len(self._b), len(o._b))
        r = 1 if len(self._b) < len(o._b) else 0
        for i in reversed(range(n)):
            a, b = self._b[i], o._b[i]
            r = bor(band(bnot(a), b), band(bnot(bxor(a, b)), r))
        return r

    def __lt__(self, o): return _out(self._lt(o))
    def __ge__(self, o): return _out(bnot(self._lt(o)))
    def __gt__(self, o): return _out(o._lt(self))
    def __le__(self, o): return _out(bnot(o._lt(self)))

    def __eq__(self, o):
        if not isinstance(o, bitarray):
            return NotImplemented
        if len(o._b) != len(self._b):
            return False
        return _out(conj(bnot(bxor(a, b)) for a, b in zip(self._b, o._b)))

    def __ne__(self, o):
        r = self.__eq__(o)
        if r is NotImplemented:
            return r
        return bnot(r) if r.__class__ is Bit else not r

    __hash__ = None

    def __bool__(self):
        return len(self._b) > 0

    def __repr__(self):
        return "bitarray('%s')" % self.to01()


def _out(b):
    return b if b.__class__ is Bit else bool(b)


frozenbitarray = bitarray


def bits2bytes(n):
    return (n + 7) // 8


def get_default_endian():
    return "big"
