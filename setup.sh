#!/bin/bash
# builds the overlay venv of /venv with z3-solver + cvc5 from the offline wheelhouse (no network)
set -e
cd "$(dirname "$0")"
if [ ! -x .venv/bin/python ] || ! .venv/bin/python -c "import z3, bitarray, numpy" 2>/dev/null; then
  rm -rf .venv
  /venv/bin/python -m venv .venv
  echo "import site; site.addsitedir('/venv/lib/python3.12/site-packages')" > .venv/lib/python3.12/site-packages/_base.pth
  PIP_NO_INDEX=1 .venv/bin/pip install -q --no-index --find-links /opt/veriftools/wheels z3-solver cvc5
fi
.venv/bin/python -c "import z3, cvc5, bitarray, numpy; print('sxl venv ok: z3', z3.get_version_string())"
